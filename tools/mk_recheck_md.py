#!/usr/bin/env python3
"""Write seeded/RECHECK.md from the log of tools/recheck_seed.sh (/tmp/recheck_summary.log)."""
import re, sys
src = sys.argv[1] if len(sys.argv) > 1 else "/tmp/recheck_summary.log"
seen = {}
for l in open(src):
    if re.match(r"^[SB]\d_C\d\d C\d\d exit=", l):
        sid, prop, ex = l.split()
        seen[sid] = (prop, ex.replace("exit=", ""))
out = ["# Stored seeds re-run with the final harnesses", "",
       "`tools/recheck_seed.sh <seed> <property> <slot-base>`: fresh scratch worktree of /repo HEAD, `seeded/<seed>/patch.diff` applied, the property's quick check, worktree and build output removed.  Expected: exit 1 (VIOLATION) for the S seeds.", "",
       "| seed | property | exit |", "|---|---|---|"]
for sid in sorted(seen):
    out.append("| %s | %s | %s |" % (sid, seen[sid][0], seen[sid][1]))
open("/verif/seeded/RECHECK.md", "w").write("\n".join(out) + "\n")
print(len(seen), "seeds")
