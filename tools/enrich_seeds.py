#!/usr/bin/env python3
"""Fill the check results into seeded/<id>/meta.json from the latest check log of each seed."""
import json, os, re, glob
root = os.path.join(os.path.dirname(os.path.abspath(__file__)), "..", "seeded")
rows = []
# benign (property-preserving) changes of round B1: no demonstration, the check must exit 0
for d in sorted(glob.glob(os.path.join(root, "B*_C*"))):
    mp = os.path.join(d, "meta.json")
    sid = os.path.basename(d)
    meta = json.load(open(mp)) if os.path.exists(mp) else {"id": sid, "property": sid.split("_")[1]}
    meta["kind"] = "benign: a change that keeps the property (false-alarm test); expected check exit 0"
    sl = os.path.join(d, "suite.log")
    if os.path.exists(sl):
        meta["suite_with_change"] = [l.strip() for l in open(sl) if l.startswith("test result")]
    json.dump(meta, open(mp, "w"), indent=1)

for d in sorted(glob.glob(os.path.join(root, "[SB]*_C*"))):
    mp = os.path.join(d, "meta.json")
    if not os.path.exists(mp):
        continue
    meta = json.load(open(mp))
    prop = meta["property"]
    lp = os.path.join(d, "check_%s.log" % prop)
    if meta.get("what_it_needs", "see notes.md") == "see notes.md" and os.path.exists(os.path.join(d, "notes.md")):
        notes = open(os.path.join(d, "notes.md"), errors="replace").read()
        m = re.search(r"^#+[^\n]*(need|trigger|manifest|specific|takes|situation)[^\n]*\n(.*?)(?=^#+ |\Z)", notes, re.I | re.S | re.M)
        if m:
            meta["what_it_needs"] = m.group(2).strip()[:900]
    if os.path.exists(lp):
        log = open(lp, errors="replace").read()
        m = re.search(r"exit=(\d+)", log)
        meta["check_cmd"] = "VERIF_REPO=<scratch worktree with patch.diff applied> python3 check.py %s --tier quick" % prop
        meta["check_exit"] = int(m.group(1)) if m else None
        meta["check_violation_lines"] = [l[:400] for l in log.splitlines() if l.startswith(("VIOLATION", "INCONCLUSIVE", "ALSO-FAILING"))][:8]
        meta["failed_checks"] = sorted(set(l.strip()[:300] for l in log.splitlines() if re.match(r"^    \w+: (C\d\d|attempt|assertion|index|called|internal|loop)", l)))[:12]
        meta["replayed_via"] = sorted(set(re.findall(r"via replay twin (\w+)", log)))
        meta["focused_rerun"] = bool(re.search(r"re-run with focus", log))
    json.dump(meta, open(mp, "w"), indent=1)
    rows.append((meta["id"], prop, meta.get("confirmed"), meta.get("check_exit")))
for r in rows:
    print("%-8s %-4s confirmed=%s check_exit=%s" % r)
