#!/usr/bin/env python3
"""One-off source transformation of the harness files: assert! -> vassert! (focus-aware)."""
import re, sys, os
d = sys.argv[1]
MACRO = '''
// ---- focus-aware assertions ------------------------------------------------------------------
//
// Kani's assert! is check-then-assume: of several oracle assertions on one path only the first
// can fail, so a failure under one property's label hides the assertions of other properties
// behind it.  Every oracle assertion therefore goes through `vassert!`.  Normally it is a plain
// assert!.  When the runner finds a harness failing ONLY under labels of other properties, it
// re-runs that harness compiled with VERIF_FOCUS=<property>: assertions labelled with other
// properties are then skipped (neither checked nor assumed), unlabelled ones (harness sanity)
// stay, and the property's own assertions are decided on all paths.  The decision is made at
// compile time (const evaluation), so nothing of it reaches the solver.

pub(crate) const FOCUS: Option<&'static str> = option_env!("VERIF_FOCUS");

pub(crate) const fn label_in_focus(msg: &str) -> bool {
    let p = match FOCUS {
        Some(p) => p.as_bytes(),
        None => return true,
    };
    if p.len() != 3 {
        return true;
    }
    let m = msg.as_bytes();
    // labelled message: "Cxx(+Cyy)*/label: text"; anything else is always in focus
    if m.len() < 4 || m[0] != b'C' {
        return true;
    }
    let mut end = 0;
    while end < m.len() && m[end] != b'/' && m[end] != b' ' {
        end += 1;
    }
    if end >= m.len() || m[end] != b'/' {
        return true;
    }
    let mut j = 0;
    while j + 3 <= end {
        if m[j] == p[0] && m[j + 1] == p[1] && m[j + 2] == p[2] {
            return true;
        }
        j += 1;
    }
    false
}

macro_rules! vassert {
    ($cond:expr, $msg:literal $(,)?) => {{
        const IN_FOCUS: bool = $crate::verif_support::label_in_focus($msg);
        if IN_FOCUS {
            assert!($cond, $msg);
        }
    }};
    ($($t:tt)+) => { assert!($($t)+) };
}
pub(crate) use vassert;

'''
for fn in sorted(os.listdir(d)):
    if not fn.endswith(".rs"):
        continue
    p = os.path.join(d, fn)
    s = open(p).read()
    if "vassert!" in s and fn != "support.rs":
        continue
    s2 = re.sub(r"(?<![A-Za-z_:])assert!\(", "vassert!(", s)
    if fn == "support.rs":
        if "macro_rules! vassert" in s:
            continue
        # insert the macro before the first `use` line
        i = s2.index("use crate::fdl::{")
        s2 = s2[:i] + MACRO.lstrip("\n").replace("vassert!($cond, $msg)", "vassert!($cond, $msg)") + s2[i:]
        # the macro body itself must call the real assert!
        s2 = s2.replace("        if IN_FOCUS {\n            vassert!($cond, $msg);", "        if IN_FOCUS {\n            assert!($cond, $msg);")
        s2 = s2.replace("($($t:tt)+) => { vassert!($($t)+) };", "($($t:tt)+) => { assert!($($t)+) };")
    elif "use crate::verif_support::*;" not in s2:
        # make the macro visible
        m = re.search(r"^use super::\*;\n", s2, re.M)
        if m:
            s2 = s2[:m.end()] + "#[allow(unused_imports)]\nuse crate::verif_support::*;\n" + s2[m.end():]
        else:
            print("!! no import anchor in", fn)
    open(p, "w").write(s2)
    print(fn, s.count("assert!(") , "->", s2.count("vassert!("))
