#!/bin/bash
# usage: seed_do.sh <round, e.g. S7> <Cxx> <slot-base> <demo-filter>
# confirm a sub-agent's seeded change in its scratch worktree /tmp/<round lower>_<Cxx> (patch applied,
# deliverables in _seed/), store it under /verif/seeded/<round>_<Cxx>/ and run the property's quick check on it.
# When several of these run at once: export VERIF_BUDGET=7 (62 GB machine).
r=$1; p=$2; base=$3; flt=$4
wt=/tmp/$(echo $r | tr A-Z a-z)_$p
cd /verif
python3 tools/confirm_seed.py ${r}_$p $p $wt $flt > /tmp/${r}_confirm_$p.log 2>&1
rm -rf $wt/target
bash tools/run_seed.sh ${r}_$p $p $wt $base
echo "${r}_$p done: $(tail -1 /verif/seeded/${r}_$p/check_$p.log) ; $(tail -1 /tmp/${r}_confirm_$p.log)" >> /tmp/seed_summary.log
