#!/bin/bash
# usage: recheck_seed.sh <seed-id> <property> <slot-base> [extra check.py args]
# re-runs a stored seed: fresh scratch worktree of /repo HEAD + seeded/<id>/patch.diff, quick check, worktree removed
sid=$1; prop=$2; base=$3; shift 3
wt=/tmp/wr_$sid
git -C /repo worktree remove --force $wt > /dev/null 2>&1
git -C /repo worktree add -f $wt HEAD > /dev/null 2>&1 || { echo "worktree failed"; exit 3; }
if ! git -C $wt apply /verif/seeded/$sid/patch.diff; then echo "$sid: patch does not apply to HEAD"; git -C /repo worktree remove --force $wt; exit 3; fi
cd /verif
VERIF_EVIDENCE_DIR=/tmp/ev_recheck VERIF_REPLAY_DIR=/tmp/ev_recheck/replays VERIF_REPO=$wt VERIF_SLOT_BASE=$base VERIF_NO_CACHE=1 python3 check.py $prop --tier quick "$@" > /tmp/recheck_$sid.log 2>&1
rc=$?
echo "$sid $prop exit=$rc" | tee -a /tmp/recheck_summary.log
git -C /repo worktree remove --force $wt
tag=t$(printf %s "$wt" | sha256sum | cut -c1-8); rm -rf /verif/.cache/target/$tag /verif/.cache/ext/$tag
