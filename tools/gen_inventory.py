#!/usr/bin/env python3
"""Regenerate DESIGN.md section 12 (harness inventory) from harness/registry.json."""
import json, re
reg = json.load(open('/verif/harness/registry.json'))
props = sorted(reg['properties'])
lines = ["## 12. Harness inventory (generated from `registry_src.py` by `tools/gen_inventory.py`)", "",
         "Per claimed property: the harnesses whose labelled assertions (or whose crate panics) decide it.",
         "`q` = quick tier, `t` = thorough tier only (the thorough check runs both).  Bounds, stubs, functions",
         "encoded and the obligation text of each harness are in `harness/registry.json` and are copied into the",
         "evidence files.  C05's quick check takes the station step harnesses plus the cheap totality harnesses",
         "marked `c05_quick`; its thorough check takes every harness that attributes crate panics to C05.", ""]
def sel(h, p, tier):
    if not (p in h['props'] or p in h.get('panic_props', h['props'])): return False
    if tier == 'quick':
        if h['tier'] != 'quick': return False
        if p == 'C05' and p not in h['props']: return bool(h.get('c05_quick'))
    return True
for p in props:
    q = [h['name'] for h in reg['harnesses'] if sel(h, p, 'quick')]
    t = [h['name'] for h in reg['harnesses'] if sel(h, p, 'thorough') and h['name'] not in q]
    lines.append("* **%s** — q (%d): %s%s" % (p, len(q), ", ".join("`%s`" % x for x in q), ("; t (+%d): " % len(t) + ", ".join("`%s`" % x for x in t)) if t else ""))
s = open('/verif/DESIGN.md').read()
i = s.index('## 12. Harness inventory')
s = s[:i] + "\n".join(lines) + "\n"
open('/verif/DESIGN.md', 'w').write(s)
print("section 12 regenerated:", len(props), "properties")
