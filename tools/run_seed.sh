#!/bin/bash
# usage: run_seed.sh <seed-id> <property> <tree> <slot-base> [extra check.py args]
# runs the property's quick check against a tree with the seeded change applied
sid=$1; prop=$2; tree=$3; base=$4; shift 4
cd /verif
VERIF_EVIDENCE_DIR=/verif/seeded/$sid VERIF_REPLAY_DIR=/verif/seeded/$sid/replays VERIF_REPO=$tree VERIF_SLOT_BASE=$base VERIF_NO_CACHE=1 python3 check.py $prop --tier quick "$@" > /verif/seeded/$sid/check_$prop.log 2>&1
echo "exit=$?" >> /verif/seeded/$sid/check_$prop.log

