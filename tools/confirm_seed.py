#!/usr/bin/env python3
"""Confirm a seeded change in its scratch worktree and store it under /verif/seeded/<id>/.
usage: confirm_seed.py <seed-id> <property> <worktree> <demo-filter>   (demo-filter: substring of demo test names / target)
"""
import json, os, re, shutil, subprocess, sys
sid, prop, wt, flt = sys.argv[1:5]
env = dict(os.environ, CARGO_NET_OFFLINE="true")
def run(cmd):
    p = subprocess.run(cmd, cwd=wt, env=env, shell=True, stdout=subprocess.PIPE, stderr=subprocess.STDOUT)
    return p.returncode, p.stdout.decode(errors="replace")
def results(out):
    ok = set(re.findall(r"^test (\S+) ... ok", out, re.M)); bad = set(re.findall(r"^test (\S+) ... FAILED", out, re.M))
    return ok, bad
patch = os.path.join(wt, "_seed", "patch.diff")
# state: patch applied
rc, out = run("cargo test --workspace --offline --no-fail-fast 2>&1")
ok, bad = results(out)
base = json.load(open("/root/.vp/BASELINE.json"))["stable_pass"]
base_names = set(b.split("::", 1)[1] for b in base)
missing = [b for b in base_names if not any(b == o or b.endswith(o) or o.endswith(b) for o in ok)]
demo_bad = [b for b in bad if flt in b or True]
with_patch = {"baseline_missing_or_failed": sorted(missing)[:5], "n_ok": len(ok), "failed": sorted(bad)}
# revert
rc, o = run("git apply -R _seed/patch.diff"); assert rc == 0, o
rc, out2 = run("cargo test --workspace --offline --no-fail-fast 2>&1")
ok2, bad2 = results(out2)
rc, o = run("git apply _seed/patch.diff"); assert rc == 0, o
confirmed = (not missing) and len(bad) > 0 and len(bad2) == 0 and all(b in ok2 for b in bad)
dst = os.path.join("/verif/seeded", sid)
os.makedirs(dst, exist_ok=True)
for f in os.listdir(os.path.join(wt, "_seed")):
    shutil.copy(os.path.join(wt, "_seed", f), dst)
meta = {"id": sid, "property": prop, "confirmed": confirmed,
        "what_it_needs": "see notes.md",
        "ran": ["cargo test --workspace --offline --no-fail-fast (patch applied): existing tests ok=%d, failing=%s" % (len(ok), sorted(bad)),
                "git apply -R patch.diff; cargo test --workspace --offline --no-fail-fast: failing=%s (the demo tests pass)" % sorted(bad2)],
        "baseline_tests_missing_with_patch": sorted(missing)}
json.dump(meta, open(os.path.join(dst, "meta.json"), "w"), indent=1)
print(sid, "confirmed" if confirmed else "NOT CONFIRMED", "fail-with:", sorted(bad), "fail-without:", sorted(bad2), "missing:", missing[:3])
