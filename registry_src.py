#!/usr/bin/env python3
"""Source of /verif/harness/registry.json (run this file to regenerate it).

One entry per Kani proof harness: which properties its labelled assertions serve, tier, resource
caps, stubs, the functions it encodes and its bounds.  Property-level texts (claim, assumptions,
what lies outside the claim) are in PROPERTIES below and are copied into the evidence files.
"""
import json
import os

H = []


def h(name, file, module, props, tier="quick", timeout_s=600, mem_gb=8, weight=1, stubbing=False,
      kani_args=(), functions=(), bounds="", obligation="", stubs=(), panic_props=None, derived_loops=(),
      crate="profirust"):
    e = dict(name=name, file=file, module=module, props=list(props), tier=tier, timeout_s=timeout_s,
             mem_gb=mem_gb, weight=weight, stubbing=stubbing, kani_args=list(kani_args),
             functions=list(functions), bounds=bounds, obligation=obligation, stubs=list(stubs),
             derived_loops=list(derived_loops), crate=crate)
    if panic_props is not None:
        e["panic_props"] = list(panic_props)
    H.append(e)


TG = "fdl::telegram::verif"
CODEC = ["FunctionCode::{to_byte,from_byte}", "RequestType::from_u8", "ResponseState::from_u8",
         "ResponseStatus::from_u8", "FrameCountBit::{fcb,fcv,from_fcv_fcb}",
         "DataTelegramHeader::{serialize,telegram_len}", "DataTelegram::deserialize",
         "TokenTelegram::{serialize,deserialize}", "ShortConfirmation::serialize", "Telegram::deserialize",
         "TelegramTx::{send_data_telegram,send_token_telegram,send_short_confirmation}"]

# ---- C09 -------------------------------------------------------------------------------------
h("c09_fc_all_bytes", "fdl_telegram.rs", TG, ["C09"], timeout_s=120, functions=CODEC[:5],
  bounds="all 256 byte values", obligation="every byte decodes or is rejected; decodable bytes re-encode to themselves; bit layout == reference")
h("c09_fc_all_values", "fdl_telegram.rs", TG, ["C09"], timeout_s=120, functions=CODEC[:5],
  bounds="all 4x12 request and 4x9 response function codes", obligation="decode(encode(fc)) == fc, encode(fc) == reference layout")
h("c09_frame_length_arithmetic", "fdl_telegram.rs", TG, ["C09"], timeout_s=120, functions=["DataTelegramHeader::telegram_len"],
  bounds="all payload lengths up to the frame limit (LE <= 249), all SAP combinations", obligation="telegram_len == reference frame length")
h("c09_token_and_sc_roundtrip", "fdl_telegram.rs", TG, ["C09"], timeout_s=120, functions=CODEC[7:],
  bounds="all DA/SA bytes 0..255, 0..5 trailing bytes", obligation="token and SC frames equal the reference and decode back identically")
h("c09_data_roundtrip_content_q", "fdl_telegram.rs", TG, ["C09"], timeout_s=600, functions=CODEC,
  bounds="payload 0..=8 bytes fully symbolic, DA/SA 0..127, DSAP/SSAP any Option<u8>, any function code, 0.. trailing bytes; unwind 23",
  obligation="wire bytes == reference frame; bytes_sent == telegram_len == frame length; nothing written beyond; decode gives identical header/payload and consumes exactly the frame; expects_reply per service")
h("c09_data_roundtrip_content_t", "fdl_telegram.rs", TG, ["C09"], tier="thorough", timeout_s=3000, mem_gb=12, weight=2, functions=CODEC,
  bounds="payload 0..=64 bytes fully symbolic; otherwise as _q; unwind 79", obligation="as c09_data_roundtrip_content_q")
h("c09_data_roundtrip_all_lengths_t", "fdl_telegram.rs", TG, ["C09"], tier="thorough", timeout_s=3600, mem_gb=16, weight=3, functions=CODEC,
  bounds="every payload length 0..=246-#SAPs (LE <= 249) with one symbolic fill byte; unwind 260", obligation="wire bytes == reference frame, round trip, for all lengths up to the frame limit")

# ---- C10 -------------------------------------------------------------------------------------
DEC = ["Telegram::deserialize", "DataTelegram::deserialize", "TokenTelegram::deserialize", "FunctionCode::from_byte",
       "Telegram::telegram_len"]
h("c10_decoder_total_q", "fdl_telegram.rs", TG, ["C10"], panic_props=["C10", "C05"], timeout_s=600, functions=DEC,
  bounds="every byte string of length 0..=32; unwind 34",
  obligation="no panic; Ok((t,n)) => 1<=n<=len, n==t.telegram_len(), payload inside the consumed frame; None => input shorter than the announced frame")
h("c10_decoder_total_t", "fdl_telegram.rs", TG, ["C10"], panic_props=["C10", "C05"], tier="thorough", timeout_s=3000, mem_gb=12, weight=2, functions=DEC,
  bounds="every byte string of length 0..=262 (the largest frame is 255 bytes); unwind 264", obligation="as c10_decoder_total_q")
h("c10_decoder_accept_q", "fdl_telegram.rs", TG, ["C10"], timeout_s=600, functions=DEC,
  bounds="every byte string of length 0..=24; unwind 26",
  obligation="Ok(Data) => SD in {SD1,SD2,SD3}; SD2 => LE==LEr>=3 and repeated SD2; FCS == sum(DA..DU); ED; decoded addresses/SAP presence == address octets")
h("c10_decoder_accept_t", "fdl_telegram.rs", TG, ["C10"], tier="thorough", timeout_s=3000, mem_gb=12, weight=2, functions=DEC,
  bounds="every byte string of length 0..=80; unwind 82", obligation="as c10_decoder_accept_q")
h("c10_decoder_prefix_q", "fdl_telegram.rs", TG, ["C10"], timeout_s=900, functions=DEC,
  bounds="every byte string of length 20 and every pair of prefix lengths i<=j<=20; unwind 22",
  obligation="a definite verdict (reject / accept(t,n)) on buf[..i] equals the verdict on buf[..j]")
h("c10_decoder_prefix_t", "fdl_telegram.rs", TG, ["C10"], tier="thorough", timeout_s=3600, mem_gb=12, weight=2, functions=DEC,
  bounds="every byte string of length 64, all i<=j<=64; unwind 66", obligation="as c10_decoder_prefix_q")
h("c10_single_byte_corruption_q", "fdl_telegram.rs", TG, ["C10"], timeout_s=900, functions=CODEC,
  bounds="frames from the real encoder: any header, payload 0..=8 symbolic bytes; every position; every replacement value (position 0: values that are not themselves start delimiters, DESIGN C10 reading note); unwind 23",
  obligation="a frame with one substituted byte is never accepted")
h("c10_single_byte_corruption_t", "fdl_telegram.rs", TG, ["C10"], tier="thorough", timeout_s=3600, mem_gb=12, weight=2, functions=CODEC,
  bounds="payload 0..=32 symbolic bytes; otherwise as _q; unwind 47", obligation="as c10_single_byte_corruption_q")
h("c10_sc_corruption", "fdl_telegram.rs", TG, ["C10"], timeout_s=120, functions=DEC,
  bounds="all 255 substitutions of the SC byte", obligation="a corrupted short confirmation is never accepted as a telegram")

PROPERTIES = {
    "C09": {
        "claim": "Bounded: for every header (DA/SA 0..127, any SAP options, any function code) and every payload within the stated length/content bounds the real encoder's bytes equal an independent reference frame encoder, the reported lengths agree, and the real decoder returns the identical telegram consuming exactly the frame. Function codes: exhaustive over all bytes and all values.",
        "assumptions": ["addresses 0..=127 (bit 8 of the address octets is the extension bit)",
                        "payload content fully symbolic only up to 8 (quick) / 64 (thorough) bytes; longer payloads with one symbolic fill byte (thorough)"],
        "outside": ["content-dependent behaviour for payloads > 64 bytes (content only flows through a copy and the additive checksum)",
                    "callers passing pdu_len beyond the frame limit (serialize asserts LE <= 249)"],
    },
    "C10": {
        "claim": "Bounded: for every byte string up to 32 (quick) / 262 (thorough) bytes the decoder neither panics nor reports lengths/payloads outside the input, asks for more data only below the announced length, never contradicts a verdict on a prefix (strings <= 20 / 64 bytes), accepts data frames only under the full acceptance conditions, and never accepts a real encoder frame with one substituted byte (payload <= 8 / 32).",
        "assumptions": ["'proper prefix of a frame of the announced length' read as 'shorter than the announced length (or than the 6 bytes a data frame needs to announce one)'",
                        "substitution of the first start delimiter by another valid start delimiter/SC is not demanded to be rejected (the frame format does not protect it); all single-bit errors are inside the check"],
        "outside": ["prefix consistency for strings > 64 bytes; corruption of frames with payload > 32 bytes"],
    },
}

NOT_APPLICABLE = {
    "C19": "solver-based checking cannot reach the pest PEG parser: heap-allocated token queues, Strings and BTreeMaps with input-dependent loops; even a concrete two-line GSD text did not get through CBMC symbolic execution in 15 minutes (DESIGN.md section 8)",
}

COMMON_ASSUMPTIONS = [
    "bounded claim: holds for all values of the symbolic inputs within the stated bounds; every loop fully unwound (Kani unwinding assertions on); nothing is claimed outside the bounds",
    "Kani's models of core/alloc intrinsics and CBMC's memory model are trusted",
    "debug profile semantics (debug assertions and overflow checks on), as Kani compiles",
]
TRUSTED = ["rustc -> Kani 0.68.0 -> CBMC 6.11.0 -> CaDiCaL", "Kani models of core/alloc intrinsics", "reference models/oracles in /verif/harness (the specification side)"]

if __name__ == "__main__":
    out = os.path.join(os.path.dirname(os.path.abspath(__file__)), "harness", "registry.json")
    with open(out, "w") as f:
        json.dump({"harnesses": H, "properties": PROPERTIES, "common_assumptions": COMMON_ASSUMPTIONS, "trusted_base": TRUSTED}, f, indent=1)
    print("wrote", out, len(H), "harnesses")
