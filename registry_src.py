#!/usr/bin/env python3
"""Source of /verif/harness/registry.json (run this file to regenerate it).

One entry per Kani proof harness: which properties its labelled assertions serve, tier, resource
caps, stubs, the functions it encodes and its bounds.  Property-level texts (claim, assumptions,
what lies outside the claim) are in PROPERTIES below and are copied into the evidence files.
"""
import json
import os

H = []

C05_QUICK = {"c14_master_zero_length_storage", "c10_decoder_total_q", "c17_iter_blocks_logging_q", "c17_iter_no_buffer", "c14_master_empty_terminates",
             "c14_master_receive_3slots_q", "c18_livelist_transmit", "c18_livelist_reply_or_timeout", "c18_scanner_transmit",
             "c18_scanner_reply_or_timeout", "c03_receive_step_q", "c03_transmit_step_q", "c16_receive_one_vs_decoder_q", "c12_gap_lemma"}


def h(name, file, module, props, tier="quick", timeout_s=600, mem_gb=8, weight=1, stubbing=False,
      kani_args=(), functions=(), bounds="", obligation="", stubs=(), panic_props=None, derived_loops=(),
      crate="profirust", hang_test=None):
    # c05_quick: cheap totality harnesses that also make up the QUICK check of C05 (poll() is total);
    # the thorough check of C05 takes every harness that names C05 among its panic properties

    e = dict(name=name, file=file, module=module, props=list(props), tier=tier, timeout_s=timeout_s,
             mem_gb=mem_gb, weight=weight, stubbing=stubbing, kani_args=list(kani_args),
             functions=list(functions), bounds=bounds, obligation=obligation, stubs=list(stubs),
             derived_loops=list(derived_loops), crate=crate, hang_test=hang_test)
    if panic_props is not None:
        e["panic_props"] = list(panic_props)
    e["c05_quick"] = name in C05_QUICK
    H.append(e)


TG = "fdl::telegram::verif"
CODEC = ["FunctionCode::{to_byte,from_byte}", "RequestType::from_u8", "ResponseState::from_u8",
         "ResponseStatus::from_u8", "FrameCountBit::{fcb,fcv,from_fcv_fcb}",
         "DataTelegramHeader::{serialize,telegram_len}", "DataTelegram::deserialize",
         "TokenTelegram::{serialize,deserialize}", "ShortConfirmation::serialize", "Telegram::deserialize",
         "TelegramTx::{send_data_telegram,send_token_telegram,send_short_confirmation}"]

# ---- C09 -------------------------------------------------------------------------------------
h("c09_fc_all_bytes", "fdl_telegram.rs", TG, ["C09"], timeout_s=600, functions=CODEC[:5],
  bounds="all 256 byte values", obligation="every byte decodes or is rejected; decodable bytes re-encode to themselves; bit layout == reference")
h("c09_fc_all_values", "fdl_telegram.rs", TG, ["C09"], timeout_s=600, functions=CODEC[:5],
  bounds="all 4x12 request and 4x9 response function codes", obligation="decode(encode(fc)) == fc, encode(fc) == reference layout")
h("c09_frame_length_arithmetic", "fdl_telegram.rs", TG, ["C09"], timeout_s=600, functions=["DataTelegramHeader::telegram_len"],
  bounds="all payload lengths up to the frame limit (LE <= 249), all SAP combinations", obligation="telegram_len == reference frame length")
h("c09_token_and_sc_roundtrip", "fdl_telegram.rs", TG, ["C09"], timeout_s=600, functions=CODEC[7:],
  bounds="all DA/SA bytes 0..255, 0..5 trailing bytes", obligation="token and SC frames equal the reference and decode back identically")
h("c09_data_roundtrip_content_q", "fdl_telegram.rs", TG, ["C09"], timeout_s=600, functions=CODEC,
  bounds="payload 0..=8 bytes fully symbolic, DA/SA 0..127, DSAP/SSAP any Option<u8>, any function code, 0.. trailing bytes; unwind 23",
  obligation="wire bytes == reference frame; bytes_sent == telegram_len == frame length; nothing written beyond; decode gives identical header/payload and consumes exactly the frame; expects_reply per service")
h("c09_data_roundtrip_content_t", "fdl_telegram.rs", TG, ["C09"], tier="thorough", timeout_s=3000, mem_gb=12, weight=2, functions=CODEC,
  bounds="payload 0..=64 bytes fully symbolic; otherwise as _q; unwind 79", obligation="as c09_data_roundtrip_content_q")
# c09_data_roundtrip_all_lengths_t (every length 0..246 at once, symbolic): no verdict within 3600 s -> not registered; boundary layouts are covered by c09_roundtrip_len_*.

for nm, desc in (("246", "246 bytes, no SAPs (LE = 249, the largest frame)"), ("245_dsap", "245 bytes with DSAP"), ("245_ssap", "245 bytes with SSAP"), ("244_both", "244 bytes with both SAPs"),
                 ("128_both", "128 bytes with both SAPs"), ("8", "8 bytes, no SAPs (SD3)"), ("7_dsap", "7 bytes with DSAP (LE = 11: SD3)"), ("9", "9 bytes, no SAPs (SD2 just above SD3)")):
    h("c09_roundtrip_len_" + nm, "fdl_telegram.rs", TG, ["C09"], timeout_s=900, functions=CODEC,
      bounds="payload of exactly " + desc + "; addresses 0..127, SAP values and function code symbolic, payload content concrete (0xA5); unwind 258",
      obligation="wire bytes == reference frame, lengths agree, decode gives the identical header/payload consuming exactly the frame")
for nm, desc, tier in (("246_t", "246 bytes, no SAPs (the largest frame)", "thorough"), ("244_both_t", "244 bytes with both SAPs", "thorough"), ("100_dsap", "100 bytes with DSAP", "quick")):
    h("c09_roundtrip_content_len_" + nm, "fdl_telegram.rs", TG, ["C09"], tier=tier, timeout_s=2400, mem_gb=12, weight=2, functions=CODEC,
      bounds="payload of exactly " + desc + " with FULLY SYMBOLIC content; addresses 0..127, SAP values and function code symbolic",
      obligation="wire bytes == reference frame, lengths agree, decode gives the identical header and payload (every byte) and consumes exactly the frame")
# ---- C10 -------------------------------------------------------------------------------------
DEC = ["Telegram::deserialize", "DataTelegram::deserialize", "TokenTelegram::deserialize", "FunctionCode::from_byte",
       "Telegram::telegram_len"]
h("c10_decoder_total_q", "fdl_telegram.rs", TG, ["C10"], panic_props=["C10", "C05"], timeout_s=600, functions=DEC,
  bounds="every byte string of length 0..=32; unwind 34",
  obligation="no panic; Ok((t,n)) => 1<=n<=len, n==t.telegram_len(), payload inside the consumed frame; None => input shorter than the announced frame")
h("c10_decoder_total_t", "fdl_telegram.rs", TG, ["C10"], panic_props=["C10", "C05"], tier="thorough", timeout_s=3000, mem_gb=12, weight=2, functions=DEC,
  bounds="every byte string of length 0..=262 (the largest frame is 255 bytes); unwind 264", obligation="as c10_decoder_total_q")
h("c10_decoder_accept_q", "fdl_telegram.rs", TG, ["C10"], timeout_s=600, functions=DEC,
  bounds="every byte string of length 0..=24; unwind 26",
  obligation="Ok(Data) => SD in {SD1,SD2,SD3}; SD2 => LE==LEr>=3 and repeated SD2; FCS == sum(DA..DU); ED; decoded addresses/SAP presence == address octets")
h("c10_decoder_accept_t", "fdl_telegram.rs", TG, ["C10"], tier="thorough", timeout_s=3000, mem_gb=12, weight=2, functions=DEC,
  bounds="every byte string of length 0..=80; unwind 82", obligation="as c10_decoder_accept_q")
h("c10_decoder_prefix_q", "fdl_telegram.rs", TG, ["C10"], timeout_s=900, functions=DEC,
  bounds="every byte string of length 20 and every pair of prefix lengths i<=j<=20; unwind 22",
  obligation="a definite verdict (reject / accept(t,n)) on buf[..i] equals the verdict on buf[..j]")
h("c10_decoder_prefix_t", "fdl_telegram.rs", TG, ["C10"], tier="thorough", timeout_s=3600, mem_gb=12, weight=2, functions=DEC,
  bounds="every byte string of length 64, all i<=j<=64; unwind 66", obligation="as c10_decoder_prefix_q")
h("c10_single_byte_corruption_q", "fdl_telegram.rs", TG, ["C10"], timeout_s=900, functions=CODEC,
  bounds="frames from the real encoder: any header, payload 0..=8 symbolic bytes; every position; every replacement value (position 0: values that are not themselves start delimiters, DESIGN C10 reading note); unwind 23",
  obligation="a frame with one substituted byte is never accepted")
h("c10_single_byte_corruption_t", "fdl_telegram.rs", TG, ["C10"], tier="thorough", timeout_s=3600, mem_gb=12, weight=2, functions=CODEC,
  bounds="payload 0..=32 symbolic bytes; otherwise as _q; unwind 47", obligation="as c10_single_byte_corruption_q")
h("c10_sc_corruption", "fdl_telegram.rs", TG, ["C10"], timeout_s=600, functions=DEC,
  bounds="all 255 substitutions of the SC byte", obligation="a corrupted short confirmation is never accepted as a telegram")

# ---- C17 (diagnostics.rs part) -----------------------------------------------------------------
DG = "dp::diagnostics::verif"
DIAGF = ["ExtDiagBlockIter::next", "ExtendedDiagnostics::{iter_diag_blocks,raw_diag_buffer,is_available,fill}",
         "ChannelDataType::from_diag_byte2", "ChannelError::from_diag_byte2", "bitvec BitSlice::from_slice/index (identifier blocks)"]
h("c17_iter_blocks_q", "dp_diagnostics.rs", DG, ["C17"], panic_props=["C17", "C05"], timeout_s=900, functions=DIAGF,
  bounds="every stored byte string of length 0..=8 in an 8-byte buffer; iteration driven to exhaustion (<= 10 calls); unwind 12",
  obligation="next() never panics, ends within length+1 calls, yields exactly the blocks of the reference parser (type, offset, length, decoded fields), stops for good at the first malformed block")
h("c17_iter_blocks_t", "dp_diagnostics.rs", DG, ["C17"], panic_props=["C17", "C05"], tier="thorough", timeout_s=3600, mem_gb=12, weight=2, functions=DIAGF,
  bounds="stored byte strings of length 0..=24; unwind 28", obligation="as c17_iter_blocks_q")
h("c17_iter_blocks_logging_q", "dp_diagnostics.rs", DG, ["C17"], panic_props=["C17", "C05"], timeout_s=900, stubbing=True, functions=DIAGF,
  stubs=["log::__private_api::loc -> static location (Location::caller unsupported by Kani)"],
  bounds="as c17_iter_blocks_q with log::set_max_level(Trace): every log argument expression is evaluated (no-op logger, nothing formatted)",
  obligation="as c17_iter_blocks_q, with logging enabled")
h("c17_iter_no_buffer", "dp_diagnostics.rs", DG, ["C17"], panic_props=["C17", "C05"], timeout_s=600, functions=DIAGF,
  bounds="peripheral without diagnostics buffer", obligation="iterating yields nothing and does not panic")
h("c17_fill_q", "dp_diagnostics.rs", DG, ["C17"], timeout_s=600, functions=["ExtendedDiagnostics::fill"],
  bounds="buffer capacity 0..=8, previous fill level, data length 0..=8, all symbolic; unwind 10",
  obligation="stored iff a buffer exists and the data fits; stored bytes == data; otherwise length and bytes unchanged")
h("c17_fill_t", "dp_diagnostics.rs", DG, ["C17"], tier="thorough", timeout_s=1800, functions=["ExtendedDiagnostics::fill"],
  bounds="capacity and data length 0..=64; unwind 66", obligation="as c17_fill_q")
# c17_debug_fmt_q (Debug formatting through core::fmt, <= 3 stored bytes): no verdict within 1200 s -> dropped, listed as outside the claim.

# ---- C03 / C04 / C08 / C14 / C17: one peripheral step --------------------------------------------
PV = "dp::peripheral::verif"
PERF = ["Peripheral::{transmit_telegram,receive_reply,send_diagnostics_request,handle_diagnostics_response}",
        "FrameCountBit::{cycle,reset,fcb,fcv}", "FunctionCode::{new_srd_low,new_srd_high,to_byte}",
        "TelegramTx::send_data_telegram", "DataTelegramHeader::serialize", "ExtendedDiagnostics::fill",
        "DiagnosticFlags (bitflags)", "FdlActiveStation::new, parameters()"]
h("c03_inv_initial", "dp_peripheral.rs", PV, ["C03", "C08"], timeout_s=600, functions=["Peripheral::new", "Peripheral::request_diagnostics"],
  bounds="any address <= 125, any FDL parameters", obligation="Inv_DP holds for a new peripheral and is preserved by user calls; new peripheral starts offline with FCB=First")
h("c03_transmit_step_q", "dp_peripheral.rs", PV, ["C03", "C04", "C08", "C14"], panic_props=["C03", "C04", "C05"], timeout_s=1200, mem_gb=10, weight=2, functions=PERF,
  bounds="one transmit_telegram from ANY peripheral state under Inv_DP: state, retry_count, fcb, diag_needed, options (ident, sync, freeze, groups), user prm 0..=4 B / config 0..=4 B / outputs 0..=4 B (content symbolic, presence symbolic), FDL address, min_tsdr, watchdog factors, max_retry_limit 1..15, Operate/Clear, high-prio flag; unwind 24",
  obligation="request kind follows the bring-up sequence; wire bytes == reference frame (SAPs 60/61/62, SRD low/high, FCB/FCV, Set_Prm/Chk_Cfg/DX PDU); DX only in data-exchange states; retry limit and Offline event; retry counting; FCB never toggled by transmit; output image never written; Inv_DP preserved")
h("c03_transmit_step_t", "dp_peripheral.rs", PV, ["C03", "C04", "C08", "C14"], panic_props=["C03", "C04", "C05"], tier="thorough", timeout_s=3600, mem_gb=14, weight=3, functions=PERF,
  bounds="user prm / config / outputs 0..=32 B; otherwise as _q; unwind 52", obligation="as c03_transmit_step_q")
h("c03_receive_step_q", "dp_peripheral.rs", PV, ["C03", "C04", "C08", "C14", "C17"], panic_props=["C03", "C04", "C05"], timeout_s=1200, mem_gb=10, weight=2, functions=PERF,
  bounds="one receive_reply from ANY peripheral state under Inv_DP with ANY FDL-admissible reply: SC, or data telegram from the peripheral with any DSAP/SSAP option, any response state/status, PDU 0..=10 symbolic bytes; inputs 0..=4 B, diagnostics buffer 0..=4 B; unwind 14",
  obligation="state' == reference bring-up transition; data exchange entered only from config validation by a ready diagnostics reply; events per life-cycle; input image changes only by a right-length non-error DX reply and then equals the payload; DataExchanged iff update (or SC for input-less); output image untouched; diagnostics fields == reply bytes; ext diag stored iff flagged and fits; accepted reply toggles FCB and clears the retry counter; Inv_DP preserved")
h("c03_receive_step_t", "dp_peripheral.rs", PV, ["C03", "C04", "C08", "C14", "C17"], panic_props=["C03", "C04", "C05"], tier="thorough", timeout_s=3600, mem_gb=14, weight=3, functions=PERF,
  bounds="inputs 0..=32 B, diagnostics buffer 0..=32 B, PDU 0..=40 B; otherwise as _q; unwind 44", obligation="as c03_receive_step_q")

h("c04_dx_large_transmit_244", "dp_peripheral.rs", PV, ["C04"], panic_props=["C04", "C05"], timeout_s=1500, mem_gb=10, weight=2, functions=PERF,
  bounds="one transmit_telegram of a peripheral in the data exchange states (first transmission or retransmission of a Data_Exchange request), output image of exactly 244 bytes (the largest) with fully symbolic content, Operate/Clear, address/FCB/retry counter/FDL parameters symbolic; unwind 258",
  obligation="wire bytes == reference Data_Exchange frame carrying exactly the 244-byte output image (zeros in Clear); output image not written")
h("c04_dx_large_receive_244", "dp_peripheral.rs", PV, ["C04"], panic_props=["C04", "C05"], timeout_s=1500, mem_gb=10, weight=2, functions=PERF,
  bounds="one receive_reply of a peripheral in the data exchange states (no diagnostics outstanding), input image of exactly 244 bytes, reply = SC or data reply without SAPs of 243/244/245 bytes with fully symbolic content and any response status; unwind 248",
  obligation="input image changes only by a 244-byte non-error reply and then equals it byte for byte; DL/DH reply of 244 bytes updates; DataExchanged iff updated; output image untouched")
h("c04_dx_large_transmit_129_t", "dp_peripheral.rs", PV, ["C04"], panic_props=["C04", "C05"], tier="thorough", timeout_s=1500, mem_gb=10, weight=2, functions=PERF,
  bounds="as c04_dx_large_transmit_244 with an output image of 129 bytes; unwind 140", obligation="as c04_dx_large_transmit_244")
h("c04_dx_large_receive_129_t", "dp_peripheral.rs", PV, ["C04"], panic_props=["C04", "C05"], tier="thorough", timeout_s=1500, mem_gb=10, weight=2, functions=PERF,
  bounds="as c04_dx_large_receive_244 with an input image of 129 bytes (replies of 128/129/130 bytes); unwind 133", obligation="as c04_dx_large_receive_244")

h("c08_request_pair_q", "dp_peripheral.rs", PV, ["C08"], panic_props=["C08", "C05"], timeout_s=1800, mem_gb=12, weight=3, functions=PERF + ["Telegram::deserialize (to read the wire)"],
  bounds="ANY peripheral state under Inv_DP -> real transmit (req1) -> interlude {request_diagnostics()?, output write?, (any FDL-admissible reply with PDU <= 8 B | time-out), request_diagnostics()?} -> real transmit (req2) [-> real transmit (req3) after an Offline event]; max_retry_limit symbolic 1..15; unwind 20",
  obligation="judged on decoded wire bytes: same FCB with FCV=1 => same destination/SAPs/service and no accepted reply in between; accepted reply => toggled FCB with FCV=1; first request after the Offline event is a diagnostics request with FCV=0/FCB=1")

# ---- C14: DP master cycle ------------------------------------------------------------------------
MV = "dp::master::verif"
MASF = ["<DpMaster as FdlApplication>::{transmit_telegram,receive_reply,handle_timeout}", "DpMaster::increment_cycle_state",
        "PeripheralSet::{get_at_index_mut,get_next_index}", "Peripheral::{transmit_telegram,receive_reply}"]
MAS_OBL = "termination of the master's turn; per slot: untouched | declined | sent one request; at most one request; request from the first slot at/after the cycle index that has something to send, nobody passed over, slots before the index not served again; cycle index stays at the sender; 'cycle completed' exactly when everybody remaining declined, then index 0, not reported twice; Offline transitions == reported events (none lost, none invented, right handle); global control due => reference broadcast frame, cycle untouched; Stop => nothing; Inv_DP preserved"
h("c14_master_empty_terminates", "dp_master.rs", MV, ["C14"], panic_props=["C14", "C05"], timeout_s=600, functions=MASF, derived_loops=[""],
  bounds="DP master with one unoccupied storage slot (no peripheral configured), any operating/cycle state, high-priority-only turn (global control never due); slot loop bound derived: <= 2 passes; unwind 5",
  obligation="the turn ends (no hang), nothing is sent, the cycle restarts at slot 0", hang_test="hang_c14_master_empty")
h("c14_master_zero_length_storage", "dp_master.rs", MV, ["C14"], panic_props=["C14", "C05"], timeout_s=600, functions=MASF, derived_loops=[""],
  bounds="DP master over a zero-length storage slice, any operating/cycle state, high-priority-only turn; unwind 5",
  obligation="the turn ends without panic, nothing is sent, the cycle restarts at slot 0", hang_test="hang_c14_master_empty")
h("c14_master_receive_3slots_q", "dp_master.rs", MV, ["C14"], panic_props=["C14", "C05"], timeout_s=1200, mem_gb=10, weight=2, stubbing=True, functions=MASF,
  stubs=["Peripheral::receive_reply -> arbitrary post-state under Inv_DP + arbitrary event (its real behaviour is c03_receive_step_*'s subject)"],
  bounds="3 storage slots with symbolic occupancy, any cycle index with a reply outstanding for the slot it denotes; unwind 8",
  obligation="a reply touches only the addressed slot; the cycle advances to the next occupied slot or completes (reported once); the event names the replying peripheral")
MAS_STUB = ["Peripheral::transmit_telegram -> reference behaviour proved by c03_transmit_step_* / c07_refines_transmit (request kind, retry counting, Offline event); frame contents not modelled"]
for nm, occ in (("both", "both slots occupied"), ("first", "only the first slot occupied"), ("second", "only the second slot occupied (sparse storage)"), ("none", "no slot occupied")):
    h("c14_master_transmit_2slots_%s_q" % nm, "dp_master.rs", MV, ["C14"], panic_props=["C14", "C05"], timeout_s=1200, mem_gb=10, weight=2, functions=MASF, derived_loops=[""], stubbing=True, stubs=MAS_STUB,
      bounds="2 storage slots, " + occ + "; each occupied slot an arbitrary peripheral under Inv_DP (state, retry counter, FCB, diagnostics flags, address symbolic; user prm/config present or not); any master state (Stop/Clear/Operate, cycle index or CycleCompleted, last global control) with the global-control telegram NOT due; unwind 6",
      obligation=MAS_OBL)
h("c14_master_global_control", "dp_master.rs", MV, ["C14"], panic_props=["C14", "C05"], timeout_s=1500, mem_gb=10, weight=2, functions=MASF, stubbing=True, stubs=MAS_STUB,
  bounds="any master state with the global-control telegram DUE (low-priority turn; never sent, or >= 50 slot times ago), one unoccupied storage slot; unwind 10",
  obligation="the reference global-control broadcast (DA 127, DSAP 58, SSAP 62, SDN low, [state, 0]) is sent, its time recorded, the cycle and all peripherals untouched")
h("c14_master_transmit_2slots_q", "dp_master.rs", MV, ["C14"], panic_props=["C14", "C05"], tier="thorough", timeout_s=3600, mem_gb=14, weight=4, functions=MASF, derived_loops=[""], stubbing=True, stubs=MAS_STUB,
  bounds="2 storage slots with SYMBOLIC occupancy (sparse included), otherwise as the concrete-occupancy harnesses; global control not due; unwind 10",
  obligation=MAS_OBL)
h("c14_master_transmit_3slots_t", "dp_master.rs", MV, ["C14"], panic_props=["C14", "C05"], tier="thorough", timeout_s=7200, mem_gb=20, weight=6, functions=MASF, derived_loops=[""], stubbing=True,
  stubs=["Peripheral::transmit_telegram -> reference behaviour proved by c03_transmit_step_*"],
  bounds="3 storage slots with symbolic occupancy; global control not due; unwind 10", obligation=MAS_OBL)

# ---- C18: live list / DP scanner -------------------------------------------------------------------
LLF = ["<LiveList as FdlApplication>::{transmit_telegram,receive_reply,handle_timeout}", "LiveList::take_last_event", "bitvec BitArray get/set"]
SCF = ["<DpScanner as FdlApplication>::{transmit_telegram,receive_reply,handle_timeout}", "DpScanner::parse_diag_response", "DpScanner::take_last_event"]
h("c18_livelist_transmit", "fdl_live_list.rs", "fdl::live_list::verif", ["C18"], panic_props=["C18", "C05"], timeout_s=600, functions=LLF,
  bounds="ANY live-list state (all 2^128 station sets, cursor 0..125, done flag), one transmit_telegram", obligation="probes exactly the cursor address (<= 125) with an FDL status request, or ends the turn and advances the cursor by one modulo 126; list unchanged")
h("c18_livelist_reply_or_timeout", "fdl_live_list.rs", "fdl::live_list::verif", ["C18"], panic_props=["C18", "C05"], timeout_s=600, functions=LLF,
  bounds="ANY live-list state with a request outstanding; any admissible reply (SC or response telegram, PDU <= 2 B) or a time-out", obligation="reply => bit set, Discovered(address, station type) iff it was clear; time-out => bit cleared, Lost iff it was set; no other bit changes; event handed out once")
h("c18_scanner_transmit", "dp_scan.rs", "dp::scan::verif", ["C18"], panic_props=["C18", "C05"], timeout_s=600, functions=SCF,
  bounds="ANY scanner state, one transmit_telegram", obligation="probes exactly the cursor address (<= 125) with a diagnostics request (DSAP 60/SSAP 62, FCB first), or advances the cursor by one modulo 126")
h("c18_scanner_reply_or_timeout", "dp_scan.rs", "dp::scan::verif", ["C18"], panic_props=["C18", "C05"], timeout_s=600, functions=SCF,
  bounds="ANY scanner state with a request outstanding; any admissible reply (PDU <= 9 B) or a time-out", obligation="well-formed diagnostics reply => known, Found(ident, master) iff unknown else Requery; other replies => nothing; time-out => Lost iff known; no other bit changes")

h("c18_livelist_history_q", "fdl_live_list.rs", "fdl::live_list::verif", ["C18"], panic_props=["C18", "C05"], timeout_s=900, functions=LLF,
  bounds="ANY live-list state, then 4 consecutive address visits (ask / reply or time-out / next turn) against ANY stable responder population (2^128 sets) with a symbolic reply loss per visit and an optional late-token turn (high-priority cycle only) before each probe; unwind 10",
  obligation="consecutive addresses are probed in sweep order (<= 125, only the own address may be skipped), at most one empty turn between probes; per visit Discovered iff not listed / Lost iff listed, list == ghost list built from the events; after a loss-free visit list == population at that address")
h("c18_livelist_history_t", "fdl_live_list.rs", "fdl::live_list::verif", ["C18"], panic_props=["C18", "C05"], tier="thorough", timeout_s=3600, mem_gb=12, weight=2, functions=LLF,
  bounds="as c18_livelist_history_q with 12 consecutive visits; unwind 14", obligation="as c18_livelist_history_q")
h("c18_scanner_history_q", "dp_scan.rs", "dp::scan::verif", ["C18"], panic_props=["C18", "C05"], timeout_s=900, functions=SCF,
  bounds="ANY scanner state, then 4 consecutive address visits against ANY stable population of DP peripherals (ident = symbolic high byte, address as low byte; symbolic master address), non-DP stations and silent addresses, symbolic reply loss per visit, optional late-token turn before each probe; unwind 14",
  obligation="sweep order as for the live list; Found (with this peripheral's ident number and master address) iff unknown, Requery iff known, Lost iff known and silent, no event for non-DP stations; known set == ghost set built from the events; after a loss-free visit known == is-a-DP-peripheral at that address")
h("c18_scanner_history_t", "dp_scan.rs", "dp::scan::verif", ["C18"], panic_props=["C18", "C05"], tier="thorough", timeout_s=3600, mem_gb=12, weight=2, functions=SCF,
  bounds="as c18_scanner_history_q with 10 consecutive visits; unwind 14", obligation="as c18_scanner_history_q")

# ---- FDL active station ------------------------------------------------------------------------------
AV = "fdl::active::verif"
h("c12_gap_lemma", "fdl_active.rs", AV, ["C12"], panic_props=["C12", "C05"], timeout_s=600, functions=["FdlActiveStation::next_gap_poll", "TokenRing::next_station"],
  bounds="ALL (TS, HSA) with TS < HSA <= 126, ALL ring views (any LAS => any NS 0..125 incl. NS=TS, TS-1, HSA-1, NS >= HSA), ALL last-polled addresses < HSA",
  obligation="result is Waiting{0} or DoPoll{a}: a != TS, a < HSA, a strictly inside the cyclic interval (TS, NS), a == cyclic successor of the last polled address; the sweep ends only when the next address is outside the GAP")

L2F = ["FdlActiveStation::{poll,poll_inner,check_for_ongoing_transmision,check_for_bus_activity,wait_synchronization_pause,mark_tx,mark_rx,mark_bus_activity,check_slot_expired,handle_lost_token}",
       "Parameters::{bits_to_time,slot_time,token_lost_timeout}", "Baudrate::bits_to_time", "State::transition_*", "TokenRing::{claim_token,ready_for_ring,next_station,previous_station}",
       "TelegramTx::{send_token_telegram,send_fdl_status_request,send_fdl_status_response}"]
L2STUBS = ["TokenRing::witness_token_pass / set_next_station / remove_station -> call recorder + arbitrary new ring view constrained by the L1 lemmas (fdl_token_ring.rs)",
           "log::__private_api::loc -> static location", "PHY = telegram-level harness PHY (TPhy): receive helpers modelled by their contract (proved against the real helpers by the C16 harnesses)"]
L2BOUNDS = "ONE poll() from ANY station state of this variant under Inv_FDL: address/HSA/gap factor symbolic, ring view (LAS state, NS, PS) symbolic, GAP state, timestamps in [0, 2^40) us, `now` symbolic, PHY busy flag symbolic, receive buffer = 0..2 arbitrary telegrams (token/SC/data, payload <= 3 B) + tail (empty/incomplete/garbage); baud 500 kbit/s, Tslot 300 bit, TTR 32436 bit fixed"
def l2(name, fn, props, obligation, log_variant=True, timeout_s=1200, weight=2, unwind=5, extra_panic=()):
    # With a logging variant present, the plain variant (same oracle, log arguments not evaluated)
    # adds nothing for the quick tier and is run in the thorough tier only.
    h(name, "fdl_active.rs", AV, props, panic_props=["C05"] + list(extra_panic), tier="thorough" if log_variant else "quick", timeout_s=timeout_s, mem_gb=10, weight=weight, stubbing=True, functions=L2F + fn, stubs=L2STUBS,
      bounds=L2BOUNDS + "; unwind %d" % unwind, obligation=obligation)
    if log_variant:
        h(name + "_log", "fdl_active.rs", AV, props, panic_props=["C05"] + list(extra_panic), timeout_s=timeout_s, mem_gb=10, weight=weight, stubbing=True, functions=L2F + fn, stubs=L2STUBS,
          bounds=L2BOUNDS + "; log::set_max_level(Trace): every log argument expression evaluated; unwind %d" % unwind, obligation=obligation + " (logging enabled)")

l2("l2_listen_token", ["FdlActiveStation::do_listen_token", "do_claim_token"], ["C01", "C02", "C05", "C06", "C11", "C12"],
   "universal C01 obligations (one tx per poll, busy => nothing, 33-bit pause in exact arithmetic, nothing sent when new bytes became visible, own transmission accounted, RX accounted); claim exactly after TTO of silence (token to self, LAS valid, full GAP scan scheduled); never token holder otherwise; status reply truthful (ready only with valid LAS and only to PS) and only after the pause; status request latched iff addressed to TS and last in buffer; exactly the witnessed token passes are reported to the ring view; two own-address sources => Offline; Inv_FDL preserved")
l2("l2_active_idle", ["FdlActiveStation::{do_active_idle,handle_telegram}", "do_claim_token"], ["C01", "C02", "C05", "C06", "C11", "C12"],
   "universal C01 obligations; claim after TTO; 'in ring' status reply; token accepted iff last buffered telegram is a token to TS from PS, or from a stranger whose first offer was remembered; stranger's first offer remembered; witnessed passes reported in order; two consecutive own-address tokens => ListenToken; Inv_FDL preserved")
l2("l2_check_token_pass", ["FdlActiveStation::{do_check_token_pass,do_pass_token,handle_telegram}"], ["C01", "C02", "C05", "C06", "C11"],
   "universal C01 obligations; nothing heard for a slot time: repeat to the SAME successor with attempt+1, third expiry: remove exactly the silent successor, token to the new NS (or keep it when alone), never remove before; new bytes arriving or anything heard: no repetition, no removal, continue as idle ring member (acceptance rules); Inv_FDL preserved")

l2("l2_claim_token", ["FdlActiveStation::{do_claim_token,next_gap_poll,transmit_gap_poll_if_pending,await_gap_poll_response}"], ["C01", "C02", "C05", "C06", "C12"],
   "universal C01 obligations; two token telegrams to self, LAS valid, full GAP scan scheduled; scan polls consecutive GAP addresses with status requests until the GAP is exhausted, then passes the token; ready master replying becomes NS (set_next_station reported), other replies leave NS; foreign telegram while awaiting => back off to ActiveIdle; silence for a slot => scan continues at once; Inv_FDL preserved")
l2("l2_pass_token", ["FdlActiveStation::{do_pass_token,next_gap_poll,transmit_gap_poll_if_pending}"], ["C01", "C02", "C05", "C11", "C12"],
   "universal C01 obligations; waits for the 33-bit pause; with the visit's GAP turn: waiting counter counts rotations up to the gap factor then restarts behind TS, sweep advances by exactly one address, polled address strictly inside (TS,NS), then AwaitStatusResponse; otherwise token to NS, pass reported to the ring view, CheckTokenPass (UseToken when alone); Inv_FDL preserved")
l2("l2_await_status_response", ["FdlActiveStation::{do_await_status_response,await_gap_poll_response,do_pass_token}"], ["C01", "C02", "C05", "C06", "C11", "C12"],
   "universal C01 obligations; reply from the polled address: ready master => set_next_station reported, else NS unchanged, then PassToken without another poll; any other telegram => back off to ActiveIdle; silence for a slot => token passed at once; sweep position unchanged; Inv_FDL preserved")

UTF = ["FdlActiveStation::{do_use_token,apps_transmit_telegram,app_transmit_telegram,schedule_next_application}", "NdApp (harness application)"]
ADF = ["FdlActiveStation::{do_await_data_response,do_use_token,apps_transmit_telegram}", "NdApp (harness application)"]
for nm, k in [("l2_use_token_0apps", 0), ("l2_use_token_1app", 1), ("l2_use_token_2apps", 2)]:
    l2(nm, UTF, ["C01", "C02", "C05", "C13", "C15"], "universal C01 obligations; hold time = previous token receipt + TTR (minus one GAP poll when pending), set on the first poll of a visit; applications asked in round-robin order from next_application, each at most once per poll, low priority only while now < end of hold time, else only the one guaranteed high-priority cycle; a decline advances the turn by one; sender keeps its turn; request expecting a reply => AwaitDataResponse for that address; token passed when all declined once or the hold time is over; PHY buffer empty apart from the pending byte count; Inv_FDL preserved" + "; exactly %d application(s)" % k, log_variant=(k == 2), weight=2, timeout_s=1800, unwind=10)
for nm, k in [("l2_await_data_response_1app", 1), ("l2_await_data_response_2apps", 2)]:
    l2(nm, ADF, ["C01", "C02", "C05", "C06", "C13", "C15"], "universal C01 obligations; admission: only SC or a response telegram from the awaited address to this station is delivered, once, to the application that sent; anything else => ActiveIdle without callback; time-out after a silent slot delivered once to the sender, then the token is used again at once (guaranteed cycle counted as used); at most one of reply/time-out; 0..1 buffered telegram; Inv_FDL preserved" + "; exactly %d application(s)" % k, log_variant=(k == 2), weight=2, timeout_s=1800, unwind=10)
# ---- C20: gsd-parser parameter packing (external crate, public API) ----------------------------------
h("c20_kernel", "harness.rs", "harness", ["C20"], crate="ext-gsd", timeout_s=600, functions=["UserPrmDataType::{write_value_to_slice,size}"],
  bounds="ALL 8 data types (bit index 0..7, bit areas first<=last<=7), ALL i64 values, ALL 4-byte windows",
  obligation="Ok iff value in the type's exact range (signed types: signed range); on Ok the parameter's bits == big-endian two's complement of the value and no other bit changes (BitArea's 'no other bit' part is carved out: known finding F9, asserted by c20_kernel_bitarea_frame_witness); on Err the window is unchanged; size() consistent")
h("c20_builder_min", "harness.rs", "harness", ["C20"], crate="ext-gsd", timeout_s=1500, mem_gb=12, weight=2, stubbing=True,
  functions=["PrmBuilder::{new,write_const_prm_data,write_default_prm_data,update_prm_data_len,set_prm,set_prm_from_text,as_bytes}", "UserPrmData::get_prm", "UserPrmDataDefinition::{get_value_from_text,write_constrained_value_to_slice}", "PrmValueConstraint::assert_valid"],
  stubs=["std::sync::Arc::drop_slow -> no-op (all Arcs leaked on purpose)"],
  bounds="2 symbolic constant bytes, one Unsigned8 parameter 'a' at offset 1 with symbolic MinMax constraint, symbolic default, one-entry text table with symbolic value; one set_prm or set_prm_from_text call with known/unknown name and text and symbolic value; unwind 6",
  obligation="new(): Err iff the default does not fit; block == constants overlaid with the default; set_prm/set_prm_from_text: Ok iff name and text known, range admits, value fits; block afterwards changed in exactly the parameter's byte, unchanged on error")
h("c20_constraint_kernel", "harness.rs", "harness", ["C20"], crate="ext-gsd", timeout_s=900, functions=["PrmValueConstraint::{is_valid,assert_valid}"],
  bounds="ALL i64 values against MinMax(any lo, any hi), Enum of 4 listed values (ANY values in ANY order, duplicates allowed, so every enumeration of 1..4 distinct values in some arrangement) and Unconstrained; unwind 7",
  obligation="is_valid and assert_valid accept exactly: lo <= v <= hi / v is one of the listed values / everything")
h("c20_constraint_kernel_5_t", "harness.rs", "harness", ["C20"], crate="ext-gsd", tier="thorough", timeout_s=1800, mem_gb=12, weight=2, functions=["PrmValueConstraint::{is_valid,assert_valid}"],
  bounds="as c20_constraint_kernel with 5 listed values", obligation="as c20_constraint_kernel")
h("c20_builder_enum", "harness.rs", "harness", ["C20"], crate="ext-gsd", timeout_s=1500, mem_gb=12, weight=2, stubbing=True,
  functions=["PrmBuilder::{new,set_prm,as_bytes}", "UserPrmData::get_prm", "UserPrmDataDefinition::write_constrained_value_to_slice", "PrmValueConstraint::assert_valid"],
  stubs=["std::sync::Arc::drop_slow -> no-op (all Arcs leaked on purpose)"],
  bounds="2 symbolic constant bytes, one Unsigned8 parameter 'a' at offset 1 with an enumeration of 3 symbolic values in any order, symbolic fitting default; one set_prm call with symbolic value; unwind 6",
  obligation="set_prm: Ok iff the value is listed and fits; block afterwards changed in exactly the parameter's byte, unchanged on error")
h("c20_kernel_bitarea_frame_witness", "harness.rs", "harness", ["C20"], crate="ext-gsd", timeout_s=600, functions=["UserPrmDataType::write_value_to_slice"],
  bounds="ALL bit areas, ALL accepted values, ALL bytes", obligation="witness of known finding F9: writing a bit area changes no bit outside the area")

# ---- C16: receive helpers ----------------------------------------------------------------------------
PHF = ["ProfibusPhy::{receive_telegram,receive_all_telegrams,poll_pending_received_bytes} (default methods)", "Telegram::deserialize", "KPhy (byte-level harness PHY)"]
PM = "phy::verif"
h("c16_receive_all_vs_decoder_q", "phy_mod.rs", PM, ["C16"], panic_props=["C16", "C05"], timeout_s=1800, mem_gb=12, weight=3, functions=PHF,
  bounds="ANY buffer content of 0..=7 bytes (up to 7 telegrams), one receive_all_telegrams call; unwind 10",
  obligation="handed-over telegrams == iterated decoder (in order, once each), is_last iff nothing buffered behind, result forwarded iff last flagged, undecodable data discarded entirely, incomplete telegram untouched")
h("c16_receive_all_sd2_le3_q", "phy_mod.rs", PM, ["C16"], panic_props=["C16", "C05"], tier="thorough", timeout_s=3600, mem_gb=12, weight=2, functions=PHF,
  bounds="buffers of 0..=10 bytes of the shape [SC]? + 68 03 03 68 + symbolic rest (the SD2 frame with the non-canonical LE 3, 9 bytes); one receive_all_telegrams call; unwind 13",
  obligation="as c16_receive_all_vs_decoder_q")
# c16_receive_all_sd2_le11_q (18 bytes, LE 11): stopped without verdict after 25 min / 10 GB on a loaded machine -> not registered (the function stays in phy_mod.rs for a later attempt)
# c16_receive_all_sd2_shapes (LE symbolic 3..=11 in one harness, 18 bytes): out of memory after ~1000 s -> not registered; LE 3 and LE 11 are separate harnesses
h("c16_receive_all_vs_decoder_t", "phy_mod.rs", PM, ["C16"], panic_props=["C16", "C05"], tier="thorough", timeout_s=7200, mem_gb=16, weight=4, functions=PHF,
  bounds="ANY buffer content of 0..=12 bytes (up to 12 telegrams); unwind 16", obligation="as _q")
h("c16_receive_one_vs_decoder_q", "phy_mod.rs", PM, ["C16"], panic_props=["C16", "C05"], timeout_s=900, functions=PHF,
  bounds="ANY buffer content of 0..=9 bytes, one receive_telegram call; unwind 12", obligation="first telegram handed over once, exactly its bytes dropped; garbage discarded; incomplete untouched; pending count == buffered bytes")
h("c16_chunked_stream_q", "phy_mod.rs", PM, ["C16"], panic_props=["C16", "C05"], timeout_s=1800, mem_gb=12, weight=3, functions=PHF + ["TelegramTx::* (real encoder builds the stream)"],
  bounds="stream of 2 telegrams from the real encoder (token | SC | SD1 data, all fields symbolic), cut at ANY position into 2 deliveries, symbolic choice of helper after the first; unwind 9",
  obligation="both telegrams received in order, each once, wherever the cut; nothing dropped while incomplete; buffer empty at the end, final telegram flagged last")
h("c16_garbage_then_telegram_q", "phy_mod.rs", PM, ["C16"], panic_props=["C16", "C05"], timeout_s=1200, functions=PHF,
  bounds="ANY undecodable prefix of 1..=4 bytes, then one telegram from the real encoder delivered separately; unwind 9", obligation="garbage discarded entirely; the next telegram is received correctly and flagged last")

# ---- C01 time lemmas, C03 watchdog ---------------------------------------------------------------------
PAV = "fdl::parameters::verif"
BAUDS = ["b9600", "b19200", "b31250", "b45450", "b93750", "b187500", "b500000", "b1500000", "b3000000", "b6000000", "b12000000"]
QUICK_BAUDS = {"b19200"}
h("c01_rate_table", "fdl_parameters.rs", PAV, ["C01"], timeout_s=900, functions=["Baudrate::{to_rate,bits_to_time}"],
  bounds="ALL 11 baud rates (symbolic), bit counts 0..=64", obligation="to_rate == reference table; floor conversion exact for small bit counts at every rate (33-bit pause, 11-bit character)")
for b in BAUDS:
    h("c01_bits_to_time_" + b, "fdl_parameters.rs", PAV, ["C01"], tier="quick" if b in QUICK_BAUDS else "thorough", timeout_s=900,
      functions=["Baudrate::{bits_to_time,to_rate}"], bounds="baud rate %s, ALL bit counts 0..=%s" % (b, "2^25" if b in ("b9600", "b19200") else "2^17 (the full range 2^25 gave no verdict within 15 min at this rate)"),
      obligation="floor conversion in exact arithmetic: t*rate <= bits*10^6 < (t+1)*rate")
    h("c01_tto_stagger_" + b, "fdl_parameters.rs", PAV, ["C01", "C06"], tier="quick" if b in ("b19200", "b500000") else "thorough", timeout_s=1800, mem_gb=10, weight=2,
      functions=["Parameters::{token_lost_timeout,slot_time,bits_to_time}", "min_slot_bits"], bounds="baud rate %s, slot_bits in {the baud's minimum, 100, 300, 500, 1000, 4095, 8191, 16383} (concrete; symbolic slot_bits x symbolic address gave no verdict within an hour), ALL adjacent address pairs (a, a+1), a <= 124" % b,
      obligation="TTO(a) >= 6 slot times; 2 slot times <= TTO(a+1) - TTO(a) <= 2 slot times + 2 us (any pair a < b by induction)")
h("c03_watchdog_factors", "fdl_parameters.rs", PAV, ["C03"], timeout_s=1800, mem_gb=10, weight=2, functions=["ParametersBuilder::watchdog_timeout", "watchdog_factors", "Parameters::watchdog_timeout"],
  bounds="ALL timeouts 10 ms ..= 650 s at microsecond resolution; factor search loop fully unwound (unwind 258)", obligation="factors in 1..=255, f1*f2*10 ms >= floor(timeout/10 ms)*10 ms, reported time == f1*f2*10 ms")

# ---- C02: token ring model lemmas and L1 equivalences ---------------------------------------------------
TRV = "fdl::token_ring::verif"
h("c02_model_set_next", "fdl_token_ring.rs", TRV, ["C02", "C12"], timeout_s=900, functions=["reference model (Model::set_next)"],
  bounds="ALL ring views under the ring invariant (any 126-bit LAS, any LAS state, any TS), ALL addresses", obligation="NS' == a, LAS state untouched, invariant kept, pass algebra")
h("c02_model_remove", "fdl_token_ring.rs", TRV, ["C02", "C11"], timeout_s=900, functions=["reference model (Model::remove)"],
  bounds="ALL ring views, ALL addresses != TS", obligation="NS' != a, only a leaves the LAS, state untouched, invariant kept")
h("c02_model_witness", "fdl_token_ring.rs", TRV, ["C02"], timeout_s=1800, mem_gb=10, weight=2, functions=["reference model (Model::witness)"],
  bounds="ALL ring views, ALL (SA, DA) byte pairs", obligation="invalid addresses ignored; valid LAS: removes exactly the jumped-over addresses, adds SA, stays valid; own pass to NS and in-order passes change nothing (stability); invariant kept")
h("c02_model_three_rotations_3", "fdl_token_ring.rs", TRV, ["C02"], tier="thorough", timeout_s=3600, mem_gb=12, weight=3, functions=["reference model (Model::witness)"],
  bounds="rings of 2..=3 stations at ANY addresses, listener at ANY address not in the ring, ANY start state and start point, 3 rotations; unwind 11", obligation="LAS valid == ring, NS/PS == cyclic neighbours of TS")
h("c02_model_three_rotations_5_t", "fdl_token_ring.rs", TRV, ["C02"], tier="thorough", timeout_s=7200, mem_gb=16, weight=4, functions=["reference model (Model::witness)"],
  bounds="rings of 2..=5 stations; otherwise as _3; unwind 17", obligation="as _3")
h("c02_l1_control_flow", "fdl_token_ring.rs", TRV, ["C02"], panic_props=["C02", "C05"], timeout_s=900, stubbing=True,
  functions=["TokenRing::{witness_token_pass,set_next_station,remove_station,claim_token,ready_for_ring,next_station,previous_station,this_station}"],
  stubs=["TokenRing::{update_las_from_token_pass,verify_las_from_token_pass,update_next_previous} -> model (the bitvec leaves; c02_l1_update_las relates the range fill; the neighbour search leaf is an ASSUMPTION, see DESIGN 2.1)"],
  bounds="ALL ring views under the ring invariant, ALL address bytes", obligation="real control flow == reference model for the four mutators; observers == model values")
h("c02_l1_update_las", "fdl_token_ring.rs", TRV, ["C02"], panic_props=["C02", "C05"], tier="thorough", timeout_s=3600, mem_gb=14, weight=3, functions=["bitvec BitSlice range fill / set as used by update_las_from_token_pass"],
  bounds="ALL 126-bit LAS, ALL SA, DA <= 125; unwind 130", obligation="bitvec range fill + set == model mask arithmetic")

h("c02_l1_update_las_real", "fdl_token_ring.rs", TRV, ["C02"], panic_props=["C02", "C05"], timeout_s=3600, mem_gb=14, weight=3, stubbing=True, functions=["TokenRing::update_las_from_token_pass (real function: bitvec range fill / set + control flow)"],
  stubs=["TokenRing::update_next_previous -> reference neighbours (the leaf without a verdict)"],
  bounds="ALL ring views under TokenRing's invariant (126-bit LAS, NS/PS = neighbours), ALL SA, DA <= 125; unwind 130", obligation="real update_las_from_token_pass == model: LAS and NS/PS (neighbours in the new list)")
# ---- C07: reference master refined by the real peripheral; joint system with the reference slave ---------
h("c07_refines_transmit", "dp_peripheral.rs", PV, ["C07"], panic_props=["C07", "C05"], timeout_s=1200, mem_gb=10, weight=2, functions=PERF,
  bounds="ONE transmit_telegram from ANY peripheral state under Inv_DP (user prm and config present, 1 byte each), max_retry_limit 1..15; unwind 14",
  obligation="request sent / Offline raised exactly as by RefMaster, request kind (DSAP) as RefMaster's, control state afterwards (state, retry count, FCB, diag_needed, diag_requested) == RefMaster's")
h("c07_refines_receive", "dp_peripheral.rs", PV, ["C07"], panic_props=["C07", "C05"], timeout_s=1200, mem_gb=10, weight=2, functions=PERF,
  bounds="ONE receive_reply from ANY peripheral state under Inv_DP with ANY FDL-admissible reply (PDU <= 8 B, inputs 0..1 B); unwind 14",
  obligation="event and control state afterwards == RefMaster's for the reply's class (SC / well-formed diagnostics with its fault flags / data with status and length match)")
C07F = ["RefMaster (proved equal to the real Peripheral control state by c07_refines_*)", "RefSlave (reference DP-V0 slave with FCB retry detection)"]
C07O = "after the history: within the fault-free window master in DataExchange and slave in Data_Exch, stable afterwards; Online only when not live, Offline only when live; events tell is_live()"
h("c07_history_progress_limit1_q", "dp_peripheral.rs", PV, ["C07", "C14"], timeout_s=1800, mem_gb=10, weight=2, functions=C07F,
  bounds="fresh master, slave in ANY stage with ANY stored response; EVERY history of 10 events over {fault-free turn, turn with transient parameter-fault / configuration-fault report, turn with high-priority (diagnostics) data reply, request lost, reply lost, slave power cycle, user request_diagnostics()}; then 12 fault-free turns; max_retry_limit 1; unwind 14",
  obligation=C07O)
h("c07_history_progress_limit1_t", "dp_peripheral.rs", PV, ["C07", "C14"], tier="thorough", timeout_s=7200, mem_gb=16, weight=4, functions=C07F,
  bounds="as _q with EVERY history of 22 events (an explicit-state exploration of the same reference pair, outside this framework, finds its reachable set closed at depth 21 for limit 1); unwind 26", obligation=C07O)
h("c07_history_progress_limit3_t", "dp_peripheral.rs", PV, ["C07", "C14"], tier="thorough", timeout_s=7200, mem_gb=16, weight=4, functions=C07F,
  bounds="EVERY history of 26 events, then 14 fault-free turns; max_retry_limit 3; unwind 28", obligation=C07O)
h("c07_silent_goes_offline", "dp_peripheral.rs", PV, ["C07", "C08"], timeout_s=1800, mem_gb=10, weight=2, functions=["RefMaster"],
  bounds="EVERY live RefMaster state, max_retry_limit 1..15 symbolic, 36 silent turns; unwind 40",
  obligation="exactly one Offline event; exactly 1+limit transmissions (counting earlier ones) before it; afterwards only diagnostics probes with the initial FCB")

LB = L2BOUNDS.replace("baud 500 kbit/s", "baud %s (one bit time is not a whole number of microseconds: every bit/time conversion rounds)")
for nm, fn, pr, bd, uw in [("l2_listen_token_log_b19200", "do_listen_token", ["C01"], "19.2 kbit/s", 5), ("l2_pass_token_log_b19200", "do_pass_token", ["C01"], "19.2 kbit/s", 5),
                           ("l2_check_token_pass_log_b19200", "do_check_token_pass", ["C01"], "19.2 kbit/s", 5), ("l2_use_token_1app_b19200", "do_use_token", ["C01", "C13"], "19.2 kbit/s", 10),
                           ("l2_active_idle_log_b45450", "do_active_idle", ["C01"], "45.45 kbit/s", 5)]:
    h(nm, "fdl_active.rs", AV, pr, panic_props=pr + ["C05"], timeout_s=1200, mem_gb=10, weight=2, stubbing=True, functions=L2F + ["FdlActiveStation::" + fn], stubs=L2STUBS,
      bounds=(LB % bd) + "; unwind %d" % uw, obligation="as the 500 kbit/s variant of this step; exercises the rounding of the 33-bit pause, slot time, token-lost time-out, transmission time and hold time")

for nm, fn in [("l2_bytes_listen_token_t", "do_listen_token"), ("l2_bytes_active_idle_t", "do_active_idle"), ("l2_bytes_await_status_response_t", "do_await_status_response")]:
    h(nm, "fdl_active.rs", AV, ["C01", "C05"], panic_props=["C01", "C05", "C16"], tier="thorough", timeout_s=3600, mem_gb=14, weight=3, stubbing=True,
      functions=L2F + ["FdlActiveStation::" + fn, "ProfibusPhy::{receive_telegram,receive_all_telegrams,poll_pending_received_bytes} (real default methods)", "Telegram::deserialize (real decoder inside the step)"],
      stubs=L2STUBS[:2] + ["PHY = byte-level harness PHY (KPhy) with 0..=6 arbitrary received bytes"],
      bounds="ONE poll() from ANY station state of this variant under Inv_FDL over a byte-level PHY with 0..=6 ARBITRARY received bytes (garbage, truncated and well-formed telegrams), logging enabled; baud 500 kbit/s; unwind 9",
      obligation="end-to-end: no panic with the real decoder and receive helpers inside the step; at most one transmission, none while busy, 33-bit pause, none when new bytes became visible; Inv_FDL preserved (independent check of the decoder -> helpers -> station composition)")

for nm, fn, pr in [("l2_use_token_3apps_t", "do_use_token", ["C01", "C05", "C13", "C15"]), ("l2_await_data_response_3apps_t", "do_await_data_response", ["C01", "C05", "C06", "C13", "C15"])]:
    h(nm, "fdl_active.rs", AV, pr, panic_props=["C05"], tier="thorough", timeout_s=7200, mem_gb=16, weight=4, stubbing=True, functions=L2F + ["FdlActiveStation::" + fn], stubs=L2STUBS,
      bounds=L2BOUNDS + "; exactly 3 applications; unwind 10", obligation="as the 2-application variant, with 3 applications")

PROPERTIES = {
    "C09": {
        "claim": "Bounded: for every header (DA/SA 0..127, any SAP options, any function code) and every payload within the stated length/content bounds the real encoder's bytes equal an independent reference frame encoder, the reported lengths agree, and the real decoder returns the identical telegram consuming exactly the frame. Function codes: exhaustive over all bytes and all values.",
        "assumptions": ["addresses 0..=127 (bit 8 of the address octets is the extension bit)",
                        "payload content fully symbolic with symbolic length up to 8 (quick) / 64 (thorough) bytes, at exactly 100 bytes with DSAP (quick) and at the frame limit (246 bytes without SAPs, 244 with both; thorough, ~10 min each); boundary layouts (246 no SAPs, 245 with one SAP, 244 with both, 128 with both, 7/8/9 around SD3) individually with concrete payload content; a single harness over all lengths at once gave no verdict within 1 h and is not registered"],
        "outside": ["content-dependent behaviour at payload lengths other than the ones listed above 64 bytes (content only flows through a copy and the additive checksum)",
                    "callers passing pdu_len beyond the frame limit (serialize asserts LE <= 249)"],
    },
    "C03": {
        "claim": "Bounded, one-step inductive: from EVERY peripheral state satisfying the representation invariant Inv_DP (proved inductive by the same harnesses) one real transmit_telegram sends exactly the request the DP bring-up sequence prescribes, byte-identical to an independent reference frame (standard SAPs, lock/sync/freeze/watchdog/min Tsdr/ident/groups/user prm; config bytes), a Data_Exchange request only in the data-exchange states; one real receive_reply with ANY FDL-admissible reply moves the bring-up state exactly along Offline -diag-> WaitForParam -SC-> WaitForConfig -SC-> ValidateConfig -ready diag-> data exchange (faults/param request/not-ready as specified). Path argument over the 6-state relation (by hand, DESIGN §4 C03): every path to a DX request passes diag, Set_Prm ack, Chk_Cfg ack, ready diag since the last Offline/re-parameterisation. Watchdog factor search: all 10 ms..650 s.",
        "assumptions": ["replies are restricted to what the FDL layer admits (SC, or response telegram from the addressed station to this station) - proved as C15's admission lemma",
                        "user parameters / config / process images up to 4 (quick) / 32 (thorough) bytes with symbolic content and length",
                        "one peripheral per harness; routing between several peripherals is C14's lemma"],
        "outside": ["PDU contents for user parameter/config blocks > 32 bytes", "multi-peripheral interleavings beyond C14's routing lemma"],
    },
    "C04": {
        "claim": "Bounded, one-step: from every peripheral state under Inv_DP, a Data_Exchange request carries exactly the output image (zeros in Clear); the input image changes only through a data reply of exactly the configured length without error status in a data-exchange round, and then equals the payload byte for byte; DataExchanged is reported iff such an update happened (or SC for an input-less peripheral); no reply or transmission writes the output image; no panic for any FDL-admissible reply.",
        "assumptions": ["replies restricted to the FDL admission predicate (C15)", "image lengths 0..=4 (quick) / 0..=32 (thorough) with symbolic length and content in the step harnesses; additionally the largest image (244 bytes, quick) and 129 bytes (thorough) with fully symbolic content for a peripheral in the data exchange states (c04_dx_large_*)",
                        "whether OK-status replies update the image is left open by the property; the code accepts them (allowed by the oracle), RDL/RDH replies are allowed either way"],
        "outside": ["image lengths between 33 and 243 bytes other than 129 (the copy loops and the length comparison are the same code; stated, not decided)"],
    },
    "C07": {
        "claim": "Compositional, bounded: (1) refinement - one real transmit_telegram / receive_reply from EVERY peripheral state under Inv_DP and every FDL-admissible reply changes the peripheral's control state (bring-up state, retry counter, frame count bit, pending and outstanding diagnostics) and raises events exactly like RefMaster, a complete deterministic reference of the master-side slave handler; (2) joint system - from a fresh RefMaster and a RefSlave (reference DP-V0 slave: Wait_Prm/Wait_Cfg/Data_Exch with frame-count-bit retry detection) in any stage, EVERY history of 10 (quick) / 22-26 (thorough) events over {fault-free turn, transient fault report, diagnostics-signalling reply, request lost, reply lost, power cycle, user diagnostics request} followed by 12-14 fault-free turns ends with master and slave in cyclic data exchange, where they stay; Configured precedes DataExchanged after Online; a silent peripheral is reported Offline exactly once after exactly 1+limit transmissions and then only probed.",
        "assumptions": ["the slave's parameters and configuration match (the property's premise) and it answers wrong-stage services with 'SAP not enabled'",
                        "joint exploration is on the reference pair; the link to the real code is the one-step refinement (all states, all admissible replies)",
                        "max_retry_limit 1 (quick) and 1, 3 (thorough) for the progress bound; 1..15 for the Offline accounting", "history depth bounded (10 / 22 / 26 events); an all-joint-states formulation needs a joint invariant that was not completed (DESIGN C07)",
                        "one peripheral (C14's routing lemma extends it to several)"],
        "outside": ["progress bounds for max_retry_limit > 3 (the mechanism is identical; the window grows by 2 turns per retry)"],
    },
    "C08": {
        "claim": "Bounded, inductive over pairs: from EVERY peripheral state under Inv_DP, for every interlude of user calls, one admissible reply or a time-out between two consecutive real transmit_telegram calls, the decoded wire requests obey the frame-count-bit discipline (same bit with FCV=1 only for a retransmission of the same service to the same destination without an accepted reply in between; toggled with FCV=1 after every accepted reply; FCV=0/FCB=1 for a new peripheral and after the Offline event), a request is transmitted only while retry_count <= max_retry_limit (<= 1+limit transmissions of an unanswered request, counter proved to count every transmission), the Offline event is raised exactly when the limit is exceeded and only while live, and an offline peripheral is only probed with diagnostics requests.",
        "assumptions": ["replies restricted to the FDL admission predicate (C15)", "reply PDU <= 8 bytes, process images <= 2 bytes in the pair harness (contents symbolic)",
                        "'accepted reply' = a reply that changed observable state (bring-up state, event, reported diagnostics, input image)",
                        "several peripherals: per-peripheral relation plus C14's routing lemma (a callback touches only the addressed slot)"],
        "outside": ["histories are covered by induction over Inv_DP, not enumerated; triples of requests beyond the Offline case"],
    },
    "C01": {
        "claim": "Per-station level (DESIGN §4 C01, §5): for EVERY station state of each of the eight state variants under Inv_FDL, every `now`, every PHY busy flag and every receive buffer content within the bounds, ONE real poll() starts at most one transmission; none while a transmission is (believed to be) in progress; none in a poll in which newly received bytes became visible; every transmission starts more than 33 bit times after the station's last recorded bus activity (exact arithmetic up to 1 us); the own transmission is accounted as bus activity to its last bit; a transmission only happens in a permitted role for the state (token holder; repetition of the own pass after a silent slot; status reply to the pending requester; claim after TTO of silence) with bytes of the matching kind. Pure lemmas for all 11 baud rates: bit/time conversion error < 1 us (all bit counts up to 2^25 at 9.6/19.2 kbit/s, up to 2^17 at the other rates); token-lost time-outs of adjacent addresses are staggered by 2 slot times (+ at most 2 us) for eight concrete slot times between the rate's minimum and 16383 bit. The ring-level statement (no two stations transmit at once) is NOT decided: it composes these obligations with single-token-ness (paper argument).",
        "assumptions": ["per-station obligations only; ring-level collision freedom rests on the single-token argument of DESIGN §5",
                        "step harnesses: baud 500 kbit/s (all eight state variants) plus 19.2 / 45.45 kbit/s variants of five steps (rounding of every conversion), Tslot 300 bit, TTR 32436 bit fixed; timestamps in [0, 2^40) us",
                        "TokenRing mutators abstracted by recorded calls + arbitrary new ring view (L1 lemmas); PHY receive helpers by their contract (C16)"],
        "outside": ["global (multi-station) collision freedom and its timing; cold-start claim race and stale PHY buffers (excluded by the property)",
                    "bit/time conversion for bit counts above 2^17 at rates other than 9.6/19.2 kbit/s and the token-lost stagger for slot times other than the eight listed ones (64-bit multiply/divide equivalences with both operands symbolic gave no verdict within an hour)"],
    },
    "C02": {
        "claim": "LAS algebra + per-station level: (L1) the control flow of the real TokenRing mutators and the real update_las_from_token_pass (full width, every ring view under TokenRing's invariant, every pass) agree with a 128-bit reference model - with the neighbour search update_next_previous replaced by the model, the one leaf without a verdict - and the model satisfies the ring lemmas (a pass removes exactly the jumped-over addresses and adds the sender; three rotations of a 2..5 station ring yield a valid LAS equal to the ring with NS/PS the cyclic neighbours; stability under in-order passes); (L2) every station state reports exactly the witnessed token passes, in order, to its ring view, answers 'ready' only with a valid view and only to PS, adopts a ready GAP responder as NS, and after claiming regards its view as valid and scans the full GAP. The multi-station convergence bound and joint agreement are NOT decided.",
        "assumptions": ["convergence time bound and agreement across stations are paper arguments (DESIGN §5.4)", "the bitvec neighbour search update_next_previous computes the cyclic neighbours of TS in the LAS (NOT proved: no verdict in any shape tried, DESIGN section 0/6); native replays run the real code"],
        "outside": ["multi-station convergence and its bound"],
    },
    "C05": {
        "claim": "Bounded: no panic (incl. debug assertions, overflow checks, unwrap/unreachable, slice/index) and complete unwinding (termination) in EVERY harness of this framework: one poll() from every FDL station state variant under Inv_FDL with arbitrary buffered telegrams, time and PHY state - with logging off and with log::set_max_level(Trace) so that every log argument expression is evaluated; with NdApp applications, the real DpMaster (0..2 slots), LiveList and DpScanner callbacks from arbitrary states; the decoder on every byte string <= 32/262 bytes; the receive helpers on arbitrary chunked byte streams; the diagnostics iterator on every stored string. Inv_FDL/Inv_DP are proved inductive by the same harnesses, so the claim covers histories of any length within the per-step bounds.",
        "assumptions": ["FDL-admissible replies reach the DP layer only (proved as C15 admission)", "the application list does not change while online (documented restriction)",
                        "set_passive()/enter_stop()/enter_clear() end in todo!() by design (documented as unsupported) and are not called",
                        "log formatting itself (core::fmt inside a real logger) is trusted; the crate's log ARGUMENT expressions are evaluated"],
        "outside": ["formatting inside a real logger; i64 time wrap-around beyond 2^40 us; API misuse the docs forbid"],
    },
    "C06": {
        "claim": "Per-station mechanisms of recovery, each for all states/inputs of one poll: (a) claim exactly after the token-lost time-out of silence from ListenToken/ActiveIdle; (b) pass supervision: repetition twice, then removal of exactly the silent successor (C11); (c) back-off: while awaiting a data/status reply or scanning after a claim, any telegram that is not the awaited reply sends the station to ActiveIdle (no lingering second token holder); (d) collision rule: own address as source twice => ActiveIdle->ListenToken, ListenToken->Offline; (e) undecodable input is discarded and the next telegram decodes (C16); every state has a timed exit under silence. The ring-level recovery bound and re-admission are NOT decided.",
        "assumptions": ["recovery bound and re-admission as temporal statements are paper arguments (DESIGN §5)"],
        "outside": ["multi-station recovery time bound"],
    },
    "C11": {
        "claim": "Bounded one-step lemmas from every state under Inv_FDL: a ring member accepts a token addressed to it iff it is the last buffered telegram and comes from PS or from a stranger whose first offer was remembered (then remembered strangers are accepted on the second offer); a listening station never becomes token holder except by claiming after its time-out; after a pass the station listens for one slot time, repeats the pass to the SAME successor at most twice, on the third expiry removes exactly that successor and passes to the new NS (keeps the token when alone); while bytes are arriving or after anything was heard it neither repeats nor removes.",
        "assumptions": ["one poll per lemma; 0..2 buffered telegrams per poll"],
        "outside": ["sequences longer than one poll are covered by induction over Inv_FDL, not enumerated"],
    },
    "C13": {
        "claim": "Hold-time gate, one-step from every UseToken/AwaitDataResponse state: on the first poll of a token visit the hold time ends at (previous token receipt + TTR), reduced by one GAP poll when one is pending; applications are offered low-priority cycles only while now < end of hold time, otherwise at most one high-priority cycle per visit, then the token is passed; after a reply or time-out the 'one guaranteed cycle' is not repeated. The ring-level rotation bound and starvation freedom are NOT decided (they follow from the gate + C11 + single token, on paper).",
        "assumptions": ["TTR fixed to 32436 bit in the step harness; NdApp applications with arbitrary appetite"],
        "outside": ["ring-level rotation bound"],
    },
    "C15": {
        "claim": "One-step from every UseToken/AwaitDataResponse state with 0..3 nondeterministic applications: transmit_telegram is offered only in UseToken (or directly after a delivered time-out), to apps[next_application], each application at most once per poll, a decline advances the index by one modulo n, the token is passed when the index returns to the first application or the hold time is over; receive_reply/handle_timeout are delivered only in AwaitDataResponse, only to the application that sent, at most one of them; a delivered reply is SC or a response telegram whose source is the awaited address and whose destination is this station - anything else sends the station to ActiveIdle without a callback; expects_reply per service (C09).",
        "assumptions": ["applications do not change while online"],
        "outside": ["rings of several stations (the admission predicate is per station)"],
    },
    "C12": {
        "claim": "Bounded/one-step: the GAP address generator is correct for ALL (TS, NS, HSA, last polled address) - never TS itself, never at or beyond NS, below HSA, no address skipped (pure lemma, no bound); one poll per token visit, the waiting counter, the post-claim full scan, evaluation of status replies (ready master becomes NS and gets the next token) and the truthfulness of this station's own status replies are one-step lemmas over poll() from symbolic states.",
        "assumptions": ["per-station obligations; 'every GAP address is polled within a bounded number of visits' follows from no-skip + the waiting counter (paper step)",
                        "reply 'within the slot time' needs the poll-jitter assumption and is arithmetic on the 33-bit pause (not machine-checked)"],
        "outside": ["ring-level timing of replies"],
    },
    "C14": {
        "claim": "Bounded, one-step inductive: for a DP master with 0, 2 (quick) or 3 (thorough) storage slots of symbolic occupancy (sparse arrays included), every slot an arbitrary peripheral under Inv_DP, and any master state, ONE real transmit_telegram terminates and serves exactly the first slot at/after the cycle index that has something to send (nobody passed over, nobody served twice), reports 'cycle completed' exactly when all remaining slots declined (then restarts at slot 0 and never reports it twice), reports every Offline transition as an event with the right handle (none lost or invented), sends the reference global-control broadcast exactly when due without touching the cycle; ONE real receive_reply touches only the addressed slot, advances the cycle by exactly one occupied slot and reports that peripheral's event; per-peripheral event life-cycle relation (Online / Configured / DataExchanged / Offline / errors vs. is_live()/is_running()) from the peripheral step harnesses. 'Exactly one turn per peripheral between two cycle-completed reports' follows by induction over the cycle index (paper step).",
        "assumptions": ["replies restricted to the FDL admission predicate and routed to the peripheral whose request is outstanding (C15)",
                        "1-byte process images in the master harnesses (contents are the subject of C03/C04)",
                        "growing Vec storage not explored (needs std; Borrowed slices only) - slot arithmetic is identical"],
        "outside": ["4 peripherals; Vec-backed storage; token-hold interruptions are covered only in so far as every call is checked from an arbitrary cycle index"],
    },
    "C18": {
        "claim": "Bounded, one-step from ANY state: for every station set (all 2^128 bit patterns), cursor and flag, one real callback of the live list / DP scanner probes exactly the cursor address (never above 125) or advances the cursor by exactly one modulo 126; a reply sets exactly that address's bit and raises Discovered/Found iff it was clear; a time-out clears exactly that bit and raises Lost iff it was set; no other bit ever changes; DP scanner descriptions carry the ident number and master address of the reply. A pending address is never skipped (a turn may be declined only when the station offers nothing but a high-priority cycle, and then the cursor stays). Bounded histories: from ANY state, 4 (quick) / 12 resp. 10 (thorough) consecutive address visits against ANY stable population with symbolic reply losses and late-token turns visit consecutive addresses in sweep order, raise Discovered/Found and Lost exactly as a ghost list says and agree with the population after every loss-free visit. 'List == responders after one full sweep' follows by induction over the 126-step sweep (paper step).",
        "assumptions": ["events are collected after every poll (the property's premise): pending event empty before each callback",
                        "replies restricted to the FDL admission predicate; an SC answer to a status request sets the bit without an event (outside the property's population model)",
                        "the callback's address is the cursor address (the FDL layer delivers replies/time-outs for the request last sent, C15)"],
        "outside": ["the 252-callback sweep as a whole (bounded histories of 4 (quick) / 12 resp. 10 (thorough) consecutive address visits from any state are decided: c18_*_history_*)"],
    },
    "C20": {
        "claim": "Bounded/complete for the kernel: for ALL data types, ALL i64 values and ALL 4-byte windows write_value_to_slice accepts exactly the type's value range, writes big-endian two's complement into exactly the parameter's bits and leaves the window unchanged on rejection; declared constraints: is_valid/assert_valid accept exactly the declared range resp. the listed values (0..4 values, any order) for ALL i64 values; builder (minimal layout: one Unsigned8 parameter over two constant bytes, symbolic range constraint or 3-value enumeration, default, text table value): PrmBuilder::new, set_prm and set_prm_from_text produce exactly the reference overlay, and every error (declared range, data type, unknown name, unknown text) is a value and leaves the block unchanged.",
        "assumptions": ["bit indices 0..7 and first <= last (what a GSD file can express)", "builder: concrete heap shape (1 parameter, one-letter names, one text), Arc::drop_slow stubbed to a no-op (all Arcs are leaked on purpose; deallocation is not the subject)"],
        "outside": ["builder layouts with several parameters / bit fields sharing a byte / enumerations of more than 4 values (a two-parameter builder harness ran out of memory in CBMC's propositional reduction; the per-parameter write is covered completely by c20_kernel)"],
    },
    "C16": {
        "claim": "Bounded: for EVERY buffer content up to 7 (quick) / 12 (thorough) bytes the real helper methods hand over exactly the telegrams the decoder finds one after the other - in order, once, flagged last iff nothing is buffered behind - drop exactly their bytes, discard undecodable data entirely and never touch a still incomplete telegram (the helpers keep no state of their own, so chunking independence follows); additionally shown directly for 2-telegram streams from the real encoder cut at any position; garbage followed by a separately arriving telegram is received correctly. This is also the contract the telegram-level PHY (TPhy) of the station harnesses models.",
        "assumptions": ["harness PHY (KPhy) as the byte buffer; SimulatorPhy (Arc<Mutex<Vec>>, a test double) is not encoded"],
        "outside": ["SimulatorPhy; streams of more than 12 buffered bytes; SD2/SD3 frames in the chunking harness (covered by the arbitrary-buffer harnesses up to 12 bytes)"],
    },
    "C17": {
        "claim": "Bounded: for every diagnostics reply (PDU <= 10 / 40 bytes) the reported flags, ident number and master address equal the reply bytes; extended diagnostics are stored iff flagged, a buffer exists and they fit, otherwise the stored ones are unchanged; iterating ANY stored byte string (<= 8 / 24 bytes) terminates without panic within length+1 calls, yields exactly the blocks an independent reference parser finds (type, position, length, decoded fields), and yields nothing after the first malformed block; also with no buffer attached, with logging enabled.",
        "assumptions": ["the always-one 'permanent' flag bit is deliberately stripped by the code and excluded from the flags comparison",
                        "a block length of 0 (header included) is malformed; a length-1 block (header only) is accepted as an empty block"],
        "outside": ["stored strings > 24 bytes; Debug formatting of extended diagnostics (core::fmt did not get through CBMC within 20 min; the iterator it drives is covered); the DP scanner's copy of the decoder is checked under C18"],
    },
    "C10": {
        "claim": "Bounded: for every byte string up to 32 (quick) / 262 (thorough) bytes the decoder neither panics nor reports lengths/payloads outside the input, asks for more data only below the announced length, never contradicts a verdict on a prefix (strings <= 20 / 64 bytes), accepts data frames only under the full acceptance conditions, and never accepts a real encoder frame with one substituted byte (payload <= 8 / 32).",
        "assumptions": ["'proper prefix of a frame of the announced length' read as 'shorter than the announced length (or than the 6 bytes a data frame needs to announce one)'",
                        "substitution of the first start delimiter by another valid start delimiter/SC is not demanded to be rejected (the frame format does not protect it); all single-bit errors are inside the check"],
        "outside": ["prefix consistency for strings > 64 bytes; corruption of frames with payload > 32 bytes"],
    },
}

NOT_APPLICABLE = {
    "C19": "solver-based checking cannot reach the pest PEG parser: heap-allocated token queues, Strings and BTreeMaps with input-dependent loops; even a concrete two-line GSD text did not get through CBMC symbolic execution in 15 minutes (DESIGN.md section 8)",
}

COMMON_ASSUMPTIONS = [
    "bounded claim: holds for all values of the symbolic inputs within the stated bounds; every loop fully unwound (Kani unwinding assertions on); nothing is claimed outside the bounds",
    "Kani's models of core/alloc intrinsics and CBMC's memory model are trusted",
    "debug profile semantics (debug assertions and overflow checks on), as Kani compiles",
]
TRUSTED = ["rustc -> Kani 0.68.0 -> CBMC 6.11.0 -> CaDiCaL", "Kani models of core/alloc intrinsics", "reference models/oracles in /verif/harness (the specification side)"]

# replay twins (DESIGN section 0, "Runner"): a failing station step whose counterexample passes
# through a ring-mutating call is re-derived on the twin (precise reference ring over a small
# consistent LAS) so that the native replay against the real TokenRing is faithful
import re as _re
_TWINS = {"l2_listen_token", "l2_active_idle", "l2_check_token_pass", "l2_claim_token", "l2_pass_token", "l2_await_status_response"}
for _e in H:
    _base = _re.sub(r"(_log)?(_b\d+)?$", "", _e["name"])
    if _base in _TWINS:
        _e["replay_harness"] = _base + "__replay"

if __name__ == "__main__":
    out = os.path.join(os.path.dirname(os.path.abspath(__file__)), "harness", "registry.json")
    with open(out, "w") as f:
        json.dump({"harnesses": H, "properties": PROPERTIES, "common_assumptions": COMMON_ASSUMPTIONS, "trusted_base": TRUSTED}, f, indent=1)
    print("wrote", out, len(H), "harnesses")
