#!/usr/bin/env python3
"""Runner for the solver-based checks of /repo (Rahix/profirust).  See DESIGN.md §2.3.

usage:  check.py <Cxx> [--tier quick|thorough] [--only <harness>] [--jobs N] [--no-cache]
        check.py --replay <path>
        check.py --list

exit 0: every obligation of the property was discharged by the solver within the stated bounds
        (known findings are printed as KNOWN-FINDING lines);
exit 1: a violation was returned by the solver AND reproduced natively
        ("VIOLATION property=<id> replay=<path>");
exit 2: inconclusive (timeout, out of memory, unwinding bound too small, vacuous harness,
        counterexample that does not reproduce, harness out of date) - never reported as a pass.
"""
import argparse
import concurrent.futures as cf
import hashlib
import json
import os
import queue
import re
import resource
import shutil
import subprocess
import sys
import threading
import time

VERIF = os.path.dirname(os.path.abspath(__file__))
REPO = os.environ.get("VERIF_REPO", "/repo")
HARNESS_DIR = os.path.join(VERIF, "harness")
CACHE = os.path.join(VERIF, ".cache")
REGISTRY = os.path.join(HARNESS_DIR, "registry.json")
KNOWN = os.path.join(VERIF, "known_findings.json")
EVIDENCE = os.environ.get("VERIF_EVIDENCE_DIR", os.path.join(VERIF, "evidence"))
REPLAYS = os.environ.get("VERIF_REPLAY_DIR", os.path.join(VERIF, "replays"))

CRATES = {
    # crate name -> (cwd, extra cargo-kani args, files hashed for the result cache)
    "profirust": {
        "cwd": REPO,
        "args": ["--no-default-features"],
        "src": [os.path.join(REPO, "src"), os.path.join(REPO, "Cargo.toml"), os.path.join(REPO, "Cargo.lock")],
    },
    "ext-gsd": {
        "cwd": os.path.join(VERIF, "ext-gsd"),
        "args": [],
        "src": [os.path.join(REPO, "gsd-parser", "src"), os.path.join(REPO, "gsd-parser", "Cargo.toml"),
                os.path.join(VERIF, "ext-gsd", "src"), os.path.join(VERIF, "ext-gsd", "Cargo.toml")],
    },
}

TREE_TAG = "t" + hashlib.sha256(REPO.encode()).hexdigest()[:8]


def _ext_crate_for_tree():
    """The external harness crate names /repo/gsd-parser as path dependency.  When another tree is
    checked (VERIF_REPO), work on a scratch copy of the crate whose dependency points there."""
    if REPO == "/repo":
        return
    src = CRATES["ext-gsd"]["cwd"]
    dst = os.path.join(CACHE, "ext", TREE_TAG, "ext-gsd")
    shutil.rmtree(dst, ignore_errors=True)
    shutil.copytree(src, dst, ignore=shutil.ignore_patterns("target"))
    with open(os.path.join(dst, "Cargo.toml")) as f:
        toml = f.read()
    with open(os.path.join(dst, "Cargo.toml"), "w") as f:
        f.write(toml.replace('"/repo/gsd-parser"', '"%s/gsd-parser"' % REPO))
    CRATES["ext-gsd"]["cwd"] = dst
    CRATES["ext-gsd"]["src"] = [os.path.join(REPO, "gsd-parser", "src"), os.path.join(REPO, "gsd-parser", "Cargo.toml"),
                                os.path.join(src, "src"), os.path.join(src, "Cargo.toml")]


_ext_crate_for_tree()

print_lock = threading.Lock()


def say(*a):
    with print_lock:
        print(*a, flush=True)


# ---------------------------------------------------------------------------------------------
# registry / known findings
# ---------------------------------------------------------------------------------------------

def load_registry():
    with open(REGISTRY) as f:
        reg = json.load(f)
    for h in reg["harnesses"]:
        h.setdefault("crate", "profirust")
        h.setdefault("tier", "quick")
        h.setdefault("timeout_s", 600)
        h.setdefault("mem_gb", 8)
        h.setdefault("weight", 1)
        h.setdefault("stubbing", False)
        h.setdefault("kani_args", [])
        h.setdefault("panic_props", list(h["props"]))
        h.setdefault("derived_loops", [])
        h.setdefault("witness_for", None)
    return reg


def load_known():
    if not os.path.exists(KNOWN):
        return []
    with open(KNOWN) as f:
        return json.load(f)["findings"]


# ---------------------------------------------------------------------------------------------
# hashing for the result cache
# ---------------------------------------------------------------------------------------------

def hash_paths(paths):
    h = hashlib.sha256()
    for p in paths:
        if os.path.isdir(p):
            for root, dirs, files in sorted(os.walk(p)):
                dirs.sort()
                for fn in sorted(files):
                    fp = os.path.join(root, fn)
                    h.update(fp.encode())
                    with open(fp, "rb") as f:
                        h.update(f.read())
        elif os.path.exists(p):
            h.update(p.encode())
            with open(p, "rb") as f:
                h.update(f.read())
    return h.hexdigest()


_src_hash = {}


def source_hash(crate):
    if crate not in _src_hash:
        hfiles = [os.path.join(HARNESS_DIR, f) for f in sorted(os.listdir(HARNESS_DIR)) if f.endswith(".rs")]
        _src_hash[crate] = hash_paths(CRATES[crate]["src"] + hfiles)
    return _src_hash[crate]


def cache_key(h, tier):
    blob = json.dumps({k: h[k] for k in sorted(h) if k not in ("obligation", "functions", "bounds", "props", "panic_props", "tier", "replay_harness")}, sort_keys=True)
    return hashlib.sha256((source_hash(h["crate"]) + blob + "kani-0.68.0").encode()).hexdigest()[:32]


# ---------------------------------------------------------------------------------------------
# running kani
# ---------------------------------------------------------------------------------------------

slot_queue = queue.Queue()


def limit_mem(gb):
    def f():
        lim = int(gb * (1 << 30))
        resource.setrlimit(resource.RLIMIT_AS, (lim, lim))
        os.setsid()
    return f


def kani_cmd(h, slot, extra=()):
    crate = CRATES[h["crate"]]
    # the target directory is private to (source tree, slot): artifacts of another tree with the
    # same package name must never be picked up
    cmd = ["cargo", "kani"] + crate["args"] + ["--target-dir", os.path.join(CACHE, "target", TREE_TAG, "slot%d" % slot)]
    cmd += ["--harness", h["module"] + "::" + h["name"], "--exact"]
    if h["stubbing"]:
        cmd += ["-Z", "stubbing"]
    cmd += list(h["kani_args"]) + list(extra)
    return cmd, crate["cwd"]


def kani_env(harness_dir=HARNESS_DIR, focus=None):
    env = dict(os.environ)
    env["PROFIRUST_VERIF_HARNESS"] = harness_dir
    env["CARGO_NET_OFFLINE"] = "true"
    env.pop("RUSTFLAGS", None)
    # VERIF_FOCUS=<property> compiles the harnesses with the oracle assertions of all OTHER
    # properties switched off (support.rs, vassert!); only set for focused re-runs
    env.pop("VERIF_FOCUS", None)
    if focus:
        env["VERIF_FOCUS"] = focus
    return env


CHECK_RE = re.compile(r"^Check (\d+): ([^\n]+)\n\t - Status: (\w+)\n\t - Description: \"(.*)\"\n\t - Location: (.*)$", re.M)


def parse_kani(out):
    """Parse kani's regular output format."""
    checks = []
    # one block per check: "Check N: <id>\n\t - Status: ..\n\t - Description: \"..\"\n\t - Location: .."
    for blk in re.split(r"\n(?=Check \d+: )", out):
        m = re.match(r"Check (\d+): ([^\n]+)\n\t - Status: (\w+)\n\t - Description: \"(.*?)\"\n(?:\t - Location: ([^\n]*))?", blk, re.S)
        if not m:
            continue
        desc = re.sub(r"\s+", " ", m.group(4))
        if len(desc) >= 2 and desc[0] == '"' and desc[-1] == '"':
            desc = desc[1:-1]
        checks.append({"id": m.group(2), "status": m.group(3), "desc": desc, "loc": m.group(5) or ""})
    res = {"checks": checks}
    m = re.search(r"VERIFICATION:- (\w+)", out)
    res["verdict"] = m.group(1) if m else None
    m = re.search(r"Verification Time: ([0-9.]+)s", out)
    res["solver_s"] = float(m.group(1)) if m else None
    m = re.search(r"(\d+) of (\d+) cover properties satisfied", out)
    res["covers"] = (int(m.group(1)), int(m.group(2))) if m else (0, 0)
    m = re.search(r"Generated (\d+) VCC\(s\), (\d+) remaining after simplification", out)
    res["vccs"] = int(m.group(2)) if m else None
    m = re.search(r"\*\* (\d+) of (\d+) failed", out)
    res["summary_failed"], res["summary_total"] = (int(m.group(1)), int(m.group(2))) if m else (None, None)
    n_noncover = sum(1 for c in checks if ".cover." not in c["id"])
    n_fail = sum(1 for c in checks if ".cover." not in c["id"] and c["status"] == "FAILURE")
    res["parse_mismatch"] = m is not None and (n_noncover != res["summary_total"] or n_fail != res["summary_failed"])
    res["oom"] = bool(re.search(r"Status: ERROR|out of memory|std::bad_alloc|Out of memory|memory exhausted", out))
    res["compile_error"] = bool(re.search(r"error(\[E\d+\])?: |could not compile|Failed to execute cargo", out)) and res["verdict"] is None
    res["unsupported"] = [c for c in checks if "unsupported" in c["id"] and c["status"] == "FAILURE"]
    return res


def run_harness(h, tier, use_cache=True, extra=(), log_suffix="", focus=None, big=False):
    """Run one harness; returns result dict."""
    key = cache_key(h, tier)
    cpath = os.path.join(CACHE, "results", key + ".json")
    if focus:
        use_cache = False
        log_suffix += ".focus-" + focus
    if use_cache and not extra and os.path.exists(cpath):
        with open(cpath) as f:
            r = json.load(f)
        r["reused"] = True
        return r
    slot = slot_queue.get()
    try:
        cmd, cwd = kani_cmd(h, slot, extra)
        # one log directory per runner process: concurrent invocations (other trees, other
        # properties) must not overwrite each other's harness logs
        logdir = os.path.join(CACHE, "logs", "p%d" % os.getpid())
        os.makedirs(logdir, exist_ok=True)
        logp = os.path.join(logdir, h["name"] + log_suffix + ".log")
        t0 = time.time()
        timed_out = False
        with open(logp, "w") as lf:
            p = subprocess.Popen(cmd, cwd=cwd, env=kani_env(focus=focus), stdout=lf, stderr=subprocess.STDOUT,
                                 preexec_fn=limit_mem(48 if (extra or big) else max(16, h["mem_gb"] * 1.25)))
            try:
                p.wait(timeout=h["timeout_s"] * (3 if (extra or big) else 1))
            except subprocess.TimeoutExpired:
                timed_out = True
                try:
                    os.killpg(p.pid, 9)
                except ProcessLookupError:
                    pass
                p.wait()
        wall = time.time() - t0
        with open(logp, errors="replace") as f:
            out = f.read()
    finally:
        slot_queue.put(slot)
    r = parse_kani(out)
    r.update({"harness": h["name"], "wall_s": round(wall, 1), "timed_out": timed_out, "rc": p.returncode,
              "log": logp, "reused": False, "cmd": " ".join(cmd), "at": time.strftime("%Y-%m-%dT%H:%M:%S")})
    if focus:
        r["focus"] = focus
    if big:
        r["big"] = True
    if not extra and not focus and not timed_out and r["verdict"] is not None and not r["oom"]:
        os.makedirs(os.path.dirname(cpath), exist_ok=True)
        with open(cpath, "w") as f:
            json.dump(r, f)
    return r


# ---------------------------------------------------------------------------------------------
# classification
# ---------------------------------------------------------------------------------------------

LABEL_RE = re.compile(r"^(C\d{2,3}(?:\+C\d{2,3})*)/([A-Za-z0-9_.-]+): ?(.*)$")


def classify(h, r):
    """Split kani's checks into failures per property, cover problems, inconclusive reasons."""
    fails = []          # dicts: {props:[..], label, desc, loc, kind}
    inconclusive = []
    covers_bad = []
    covers_unreach = []
    covers_sat = 0
    if r["timed_out"]:
        inconclusive.append("timeout after %ss" % h["timeout_s"])
        return fails, covers_bad, inconclusive
    if r.get("compile_error"):
        inconclusive.append("harness does not compile against the current tree (harness out of date?) - see " + r["log"])
        return fails, covers_bad, inconclusive
    if any(c["status"] == "ERROR" for c in r["checks"]):
        inconclusive.append("solver ended with Status: ERROR (out of memory / resource limit) - see " + r["log"])
        return fails, covers_bad, inconclusive
    if r.get("parse_mismatch"):
        inconclusive.append("runner parsed %d checks but kani's summary reports %s (parser out of date) - see %s" % (len(r["checks"]), r.get("summary_total"), r["log"]))
        return fails, covers_bad, inconclusive
    if r["oom"] or r["verdict"] is None:
        inconclusive.append("no verdict (out of memory or tool error) - see " + r["log"])
        return fails, covers_bad, inconclusive
    for c in r["checks"]:
        st = c["status"]
        is_cover = ".cover." in c["id"] or c["desc"].startswith("cover:")
        if is_cover:
            # UNREACHABLE: the cover sits in code that this instantiation of a shared harness
            # function never executes (tolerated as long as the harness has a satisfied cover);
            # UNSATISFIABLE: reachable but never true - a vacuity problem
            if st == "UNREACHABLE":
                covers_unreach.append(c["desc"])
            elif st != "SATISFIED":
                covers_bad.append(c["desc"] + " [" + st + "]")
            else:
                covers_sat += 1
            continue
        if st in ("SUCCESS", "UNREACHABLE"):
            continue
        if "unwinding assertion" in c["desc"] or ".unwind." in c["id"]:
            derived = any(d in c["id"] or d in c["loc"] for d in h["derived_loops"])
            if derived and st == "FAILURE":
                fails.append({"props": list(h["panic_props"]), "label": "hang", "desc": "loop does not terminate within its derived bound: " + c["id"], "loc": c["loc"], "kind": "hang"})
            elif st == "FAILURE":
                inconclusive.append("unwinding bound too small: " + c["id"] + " @ " + c["loc"])
            continue
        if "unsupported" in c["id"] or "unsupported" in c["desc"].lower():
            if st == "FAILURE":
                inconclusive.append("unsupported construct reachable: " + c["desc"])
            continue
        if st == "UNDETERMINED":
            # consequence of an unwinding/unsupported failure; reported through that
            continue
        if st == "FAILURE":
            m = LABEL_RE.match(c["desc"])
            if m:
                fails.append({"props": m.group(1).split("+"), "label": m.group(1) + "/" + m.group(2), "desc": c["desc"], "loc": c["loc"], "kind": "oracle"})
            else:
                fails.append({"props": list(h["panic_props"]), "label": "panic", "desc": c["desc"], "loc": c["loc"], "kind": "panic"})
    if covers_unreach and covers_sat == 0:
        covers_bad.extend(d + " [UNREACHABLE]" for d in covers_unreach)
    if any(c["status"] == "UNDETERMINED" for c in r["checks"]) and not inconclusive and not fails:
        inconclusive.append("undetermined checks without a cause")
    return fails, covers_bad, inconclusive


# ---------------------------------------------------------------------------------------------
# native replay
# ---------------------------------------------------------------------------------------------

PLAYBACK_RE = re.compile(r"```\n/// Test generated for harness[^\n]*\n///\s*\n/// Check for `(\w+)`: \"([^\n]*)\"\n(?:///[^\n]*\n)*\s*\n(#\[test\]\nfn (kani_concrete_playback_\w+)\(\) \{.*?\n\})\n```", re.S)


def replay_hang(h, prop):
    """A derived-bound unwinding failure (hang): Kani gives no playback test for it, so the
    registry names a handwritten concrete #[test] in the harness file; it is run natively under a
    watchdog and counts as reproduced iff it does not return."""
    os.makedirs(os.path.join(REPLAYS, prop), exist_ok=True)
    path = os.path.join(REPLAYS, prop, h["name"] + ".hang.rs")
    name = h.get("hang_test")
    if not name:
        return False, path, "termination failure (unwinding assertion on a loop with derived bound) but no concrete hang witness test is registered for this harness"
    with open(path, "w") as f:
        f.write("// native replay for harness %s (property %s), crate %s, file %s\n" % (h["name"], prop, h["crate"], h["file"]))
        f.write("// hang witness: the named test is part of the harness file; re-run: /verif/check.py --replay %s\n" % path)
        f.write("// hang_test %s\n" % name)
    return run_replay_file(path)


def replay_native(h, prop, wanted=None, tests=None, focus=None):
    """Obtain concrete playback tests for harness h and run them natively.
    Returns (reproduced: bool, path, details)."""
    os.makedirs(os.path.join(REPLAYS, prop), exist_ok=True)
    if tests is None and h.get("replay_harness") and not h.get("_is_twin"):
        # station step harnesses: derive the counterexample on the replay twin first (precise
        # reference ring over a small consistent LAS; its stubs draw no nondeterministic values, so
        # the playback lines up with the native run of the real TokenRing)
        twin = dict(h, name=h["replay_harness"], _is_twin=True)
        ok, tpath, det = replay_native(twin, prop, wanted=wanted, focus=focus)
        if ok:
            return ok, tpath, "via replay twin %s: %s" % (twin["name"], det)
        say("    (replay twin %s of %s gave no native reproduction: %s; falling back to the harness's own playback)" % (twin["name"], h["name"], det[:300]))
    path = os.path.join(REPLAYS, prop, h["name"] + ".rs")
    if tests is None:
        r = run_harness(h, "replay", use_cache=False,
                        extra=["-Z", "concrete-playback", "--concrete-playback=print"], log_suffix=".playback", focus=focus)
        with open(r["log"], errors="replace") as f:
            out = f.read()
        found = [(kind, desc, body, name) for kind, desc, body, name in PLAYBACK_RE.findall(out) if kind != "cover"]
        if h.get("_is_twin"):
            # only failures of THIS property (or unlabelled crate panics) count on the twin
            def _mine(desc):
                m = LABEL_RE.match(desc.strip('"'))
                return (prop in m.group(1).split("+")) if m else (prop in h["panic_props"])
            found = [t for t in found if _mine(t[1])]
        if wanted:
            found = [t for t in found if any(t[1] == w or t[1] in w or w in t[1] for w in wanted)] or found
        # one test per distinct failing description, at most 6
        seen, tests = set(), []
        for kind, desc, body, name in found:
            if desc in seen:
                continue
            seen.add(desc)
            tests.append(("// failing check: " + desc.replace("\n", " ") + "\n" + body, name))
        tests = tests[:6]
        if not tests:
            return False, path, "kani produced no concrete playback test (see %s)" % r["log"]
    body = "\n\n".join(t[0] for t in tests)
    with open(path, "w") as f:
        f.write("// native replay for harness %s (property %s), crate %s, file %s\n" % (h["name"], prop, h["crate"], h["file"]))
        f.write("// re-run: /verif/check.py --replay %s\n" % path)
        if focus:
            f.write("// focus %s\n" % focus)
        f.write(body + "\n")
    return run_replay_file(path)


def run_replay_file(path):
    with open(path) as f:
        txt = f.read()
    m = re.match(r"// native replay for harness (\S+) \(property (\S+)\), crate (\S+), file (\S+)", txt)
    if not m:
        return False, path, "not a replay file"
    hname, prop, crate, hfile = m.groups()
    names = re.findall(r"fn (kani_concrete_playback_\w+)\(\)", txt)
    wanted_msgs = {}
    for mm in re.finditer(r"// failing check: \"?(.*?)\"?\n#\[test\]\nfn (kani_concrete_playback_\w+)", txt):
        wanted_msgs[mm.group(2)] = mm.group(1).strip().strip('"')
    hang = re.search(r"^// hang_test (\w+)", txt, re.M)
    if hang:
        names = [hang.group(1)]
    fm = re.search(r"^// focus (C\d+)", txt, re.M)
    focus = fm.group(1) if fm else None
    witness = re.search(r"^// witness_test (\w+)", txt, re.M)
    if witness:
        names = [witness.group(1)]
    scratch = os.path.join(CACHE, "replay", "p%d" % os.getpid(), hname)
    shutil.rmtree(scratch, ignore_errors=True)
    if crate == "profirust":
        shutil.copytree(HARNESS_DIR, os.path.join(scratch, "harness"))
        with open(os.path.join(scratch, "harness", hfile), "a") as f:
            f.write("\n" + "\n".join(l for l in txt.splitlines() if not l.startswith("// ")) + "\n")
        cwd = REPO
        env = kani_env(os.path.join(scratch, "harness"), focus=focus)
    else:
        src = CRATES[crate]["cwd"]
        shutil.copytree(src, os.path.join(scratch, "crate"), ignore=shutil.ignore_patterns("target"))
        with open(os.path.join(scratch, "crate", "src", hfile), "a") as f:
            f.write("\n" + "\n".join(l for l in txt.splitlines() if not l.startswith("// ")) + "\n")
        cwd = os.path.join(scratch, "crate")
        env = kani_env()
    env["CARGO_TARGET_DIR"] = os.path.join(CACHE, "target", TREE_TAG, "playback-" + crate)
    details = []
    reproduced = False
    for n in names:
        cmd = ["cargo", "kani", "playback", "-Z", "concrete-playback", "--", n]
        try:
            pr = subprocess.Popen(cmd, cwd=cwd, env=env, stdout=subprocess.PIPE, stderr=subprocess.STDOUT, preexec_fn=os.setsid)
            try:
                outb, _ = pr.communicate(timeout=400 if not hang else 240)
            except subprocess.TimeoutExpired:
                try:
                    os.killpg(pr.pid, 9)
                except ProcessLookupError:
                    pass
                pr.communicate()
                raise
            out = outb.decode(errors="replace")
        except subprocess.TimeoutExpired:
            # a native hang is a reproduction of a termination violation
            out = "native run did not terminate within its watchdog time (hang reproduced)"
            reproduced = True
            details.append(n + ": " + out)
            continue
        pm = re.search(r"panicked at ([^\n]*):\n([^\n]*)", out)
        if re.search(r"test result: FAILED", out) and pm:
            msg = pm.group(2).strip()
            want = wanted_msgs.get(n)
            generic = want is None or "placeholder message" in want or want.startswith("attempt to") or "index out of bounds" in want or "unwinding" in want
            if "kani::assume should always hold" in out:
                details.append(n + ": assumption failed natively (not a reproduction): " + msg)
            elif generic and not pm.group(1).startswith("/verif/"):
                reproduced = True
                details.append(n + ": panicked at " + pm.group(1) + ": " + msg)
            elif not generic and (want in msg or msg in want or want.split(":")[0] in msg):
                reproduced = True
                details.append(n + ": panicked at " + pm.group(1) + ": " + msg)
            else:
                details.append(n + ": panics natively, but not with the failure the solver reported (solver: %r, native: %r at %s) - not counted" % (want, msg, pm.group(1)))
        elif re.search(r"test result: ok", out):
            details.append(n + ": passes natively (does not reproduce)")
        else:
            details.append(n + ": no test result (build problem?)\n" + out[-1500:])
    shutil.rmtree(scratch, ignore_errors=True)
    return reproduced, path, "; ".join(details)


# ---------------------------------------------------------------------------------------------
# main check
# ---------------------------------------------------------------------------------------------

def known_match(known, prop, h, fail):
    for k in known:
        if k.get("status") != "known":
            continue
        if k["property"] != prop or k["harness"] != h["name"]:
            continue
        if re.search(k["failed_check"], fail["label"] + " " + fail["desc"] + " " + fail["loc"]):
            return k
    return None


def check_property(prop, tier, only=None, jobs=None, use_cache=True, do_replay=True):
    t0 = time.time()
    reg = load_registry()
    known = load_known()
    pinfo = reg["properties"].get(prop)
    if pinfo is None:
        say("property %s has no check (see MANIFEST.json not_applicable)" % prop)
        return 2
    def selected(h):
        if not (prop in h["props"] or prop in h["panic_props"]):
            return False
        if tier == "thorough":
            return True
        if h["tier"] != "quick":
            return False
        # C05 (poll() is total) is served by the crate panics of nearly every harness; its quick
        # check takes the station step harnesses (C05 among their labelled properties) and the
        # cheap totality harnesses marked c05_quick, its thorough check takes all of them
        if prop == "C05" and prop not in h["props"]:
            return bool(h.get("c05_quick"))
        return True
    hs = [h for h in reg["harnesses"] if selected(h)]
    if only:
        hs = [h for h in hs if h["name"] in only]
    if not hs:
        say("no harness registered for %s" % prop)
        return 2
    jobs = jobs or int(os.environ.get("VERIF_JOBS", "10"))
    while not slot_queue.empty():
        slot_queue.get()
    base = int(os.environ.get("VERIF_SLOT_BASE", "0"))
    for i in range(jobs):
        slot_queue.put(base + i)

    # memory-aware scheduling: total weight of concurrently running harnesses <= VERIF_BUDGET
    # (one weight unit ~ 2.5 GB peak; 62 GB machine)
    cap = int(os.environ.get("VERIF_BUDGET", "14"))
    budget = threading.Semaphore(cap)
    # only one thread at a time collects its units (two threads each holding a part of what they
    # need could otherwise wait for each other for ever); releasing needs no lock
    acq = threading.Lock()

    def job(h):
        w = min(cap, h["weight"])
        with acq:
            for _ in range(w):
                budget.acquire()
        try:
            r = run_harness(h, tier, use_cache=use_cache)
        finally:
            for _ in range(w):
                budget.release()
        if r.get("oom") and r["verdict"] is not None:
            # the solver ran out of memory (typically a changed tree that drags more code into the
            # harness): one more attempt with the whole memory budget and three times the time
            with acq:
                for _ in range(cap):
                    budget.acquire()
            try:
                say("  [%s] %-44s out of memory after %.0fs - retrying alone with 48 GB" % (prop, h["name"], r["wall_s"]))
                r = run_harness(h, tier, use_cache=False, big=True, log_suffix=".big")
            finally:
                for _ in range(cap):
                    budget.release()
        return h, r

    results = []
    with cf.ThreadPoolExecutor(max_workers=jobs) as ex:
        futs = [ex.submit(job, h) for h in sorted(hs, key=lambda h: -h["timeout_s"])]
        for fu in cf.as_completed(futs):
            h, r = fu.result()
            results.append((h, r))
            say("  [%s] %-44s %-10s %6.1fs%s" % (prop, h["name"], r["verdict"] or ("TIMEOUT" if r["timed_out"] else "ERROR"),
                                                r["wall_s"], " (reused)" if r["reused"] else ""))

    violations, known_hits, inconcl, notes = [], [], [], []
    # Masked assertions: Kani's assert is check-then-assume, so a harness that fails ONLY under the
    # label of another property has not checked this property's assertions on the paths behind
    # that failure.  Such a harness is re-run compiled with VERIF_FOCUS=<this property> (the other
    # properties' oracle assertions switched off); the focused result replaces the masked one.
    def _masked(h, r):
        fails, _, inc = classify(h, r)
        return (not inc) and any(prop not in f["props"] for f in fails) and not any(prop in f["props"] for f in fails)
    masked = [(h, r) for h, r in results if h["crate"] == "profirust" and _masked(h, r)]
    if masked:
        def fjob(hr):
            h, r = hr
            w = cap if r.get("big") else min(cap, h["weight"])
            with acq:
                for _ in range(w):
                    budget.acquire()
            try:
                return h, r, run_harness(h, tier, use_cache=False, focus=prop, big=bool(r.get("big")))
            finally:
                for _ in range(w):
                    budget.release()
        with cf.ThreadPoolExecutor(max_workers=jobs) as ex:
            for h, r, r2 in ex.map(fjob, masked):
                labels = sorted(set(f["label"] for f in classify(h, r)[0] if prop not in f["props"]))
                say("  [%s] %-44s %-10s %6.1fs (re-run with focus on %s: failed only under %s)" % (
                    prop, h["name"], r2["verdict"] or ("TIMEOUT" if r2["timed_out"] else "ERROR"), r2["wall_s"], prop, ", ".join(labels)))
                notes.append("%s: failed only under other properties' labels (%s); re-run with VERIF_FOCUS=%s -> %s" % (h["name"], ", ".join(labels), prop, r2["verdict"]))
                results[[i for i, (hh, _) in enumerate(results) if hh is h][0]] = (h, r2)
    # reachability witnesses are judged per property run: a cover that sits in an oracle function
    # shared by several harnesses (e.g. one per slot occupancy pattern) must be satisfied in at
    # least one of them; every harness must still have at least one satisfied cover of its own
    sat_somewhere = set()
    for h, r in results:
        for c in r["checks"]:
            if (".cover." in c["id"] or c["desc"].startswith("cover:")) and c["status"] == "SATISFIED":
                sat_somewhere.add(c["desc"])
    samples = []
    n_checks = n_ok = n_cov = n_cov_ok = 0
    solver_s = 0.0
    vccs = 0
    labels_ok = set()
    # cheapest harnesses first: once one violation of this property is confirmed natively, the
    # remaining failing harnesses are reported without another (expensive) playback run
    confirmed_by = None
    for h, r in sorted(results, key=lambda x: (x[1]["wall_s"], x[0]["name"])):
        fails, covers_bad, inc = classify(h, r)
        mine = [f for f in fails if prop in f["props"]]
        others = [f for f in fails if prop not in f["props"]]
        for c in r["checks"]:
            is_cover = ".cover." in c["id"] or c["desc"].startswith("cover:")
            if is_cover:
                n_cov += 1
                n_cov_ok += c["status"] == "SATISFIED"
            else:
                n_checks += 1
                n_ok += c["status"] in ("SUCCESS", "UNREACHABLE")
                m = LABEL_RE.match(c["desc"])
                if m and prop in m.group(1).split("+") and c["status"] == "SUCCESS":
                    labels_ok.add(h["name"] + ":" + m.group(2))
        solver_s += r["solver_s"] or 0
        vccs += r["vccs"] or 0
        for i in inc:
            inconcl.append(h["name"] + ": " + i)
        covers_bad = [cb for cb in covers_bad if cb.rsplit(" [", 1)[0] not in sat_somewhere]
        own_sat = sum(1 for c in r["checks"] if (".cover." in c["id"] or c["desc"].startswith("cover:")) and c["status"] == "SATISFIED")
        has_covers = any((".cover." in c["id"] or c["desc"].startswith("cover:")) for c in r["checks"])
        if has_covers and own_sat == 0 and not inc and not mine:
            inconcl.append(h["name"] + ": none of the harness's reachability witnesses is satisfied (vacuous harness?)")
        elif covers_bad and not inc and not mine:
            inconcl.append(h["name"] + ": vacuity witness not reached in any harness of this run: " + "; ".join(covers_bad))
        for f in others:
            notes.append("%s: failure attributed to %s (not this property): %s" % (h["name"], ",".join(f["props"]), f["desc"]))
        if others and not mine:
            # Kani's assert is check-then-assume: a failing assertion cuts off the paths behind it, so
            # this property's own assertions in the same harness were not checked on those paths
            inconcl.append("%s: fails under another property's label (%s); this property's assertions behind that failure were not checked - not a pass" % (
                h["name"], "; ".join(sorted(set(f["label"] for f in others)))))
        sample = {"harness": h["name"], "obligation": h.get("obligation", ""), "bounds": h.get("bounds", ""),
                  "functions": h.get("functions", []), "stubs": h.get("stubs", []), "verdict": r["verdict"],
                  "wall_s": r["wall_s"], "solver_s": r["solver_s"], "cbmc_checks": len(r["checks"]),
                  "reused_result": r["reused"], "cmd": r["cmd"]}
        if r.get("focus"):
            sample["focused_rerun"] = "compiled with VERIF_FOCUS=%s: oracle assertions labelled only with other properties switched off (the unfocused run failed only under such labels)" % r["focus"]
        if mine:
            # distinct failing labels
            seen = {}
            for f in mine:
                seen.setdefault((f["label"], f["desc"], f["loc"]), f)
            mine_u = list(seen.values())
            # known findings first
            unknown = []
            for f in mine_u:
                k = known_match(known, prop, h, f)
                if k:
                    known_hits.append((k, h, f))
                else:
                    unknown.append(f)
            sample["failed_checks"] = [f["label"] + " | " + f["desc"] + " | " + f["loc"] for f in mine_u]
            if unknown:
                hangs = [f for f in unknown if f["kind"] == "hang"]
                if do_replay and confirmed_by is not None:
                    ok, path, det = True, "(not replayed)", "not replayed: a violation of this property was already confirmed natively by harness %s in this run" % confirmed_by
                elif do_replay and hangs and len(hangs) == len(unknown):
                    ok, path, det = replay_hang(h, prop)
                elif do_replay:
                    ok, path, det = replay_native(h, prop, wanted=[f["desc"] for f in unknown if f["kind"] != "hang"], focus=r.get("focus"))
                    if not ok and hangs:
                        ok, path, det = replay_hang(h, prop)
                else:
                    ok, path, det = True, "(replay skipped)", "replay skipped on request"
                sample["replay"] = {"path": path, "reproduced": ok, "details": det}
                if ok:
                    if confirmed_by is None and do_replay:
                        confirmed_by = h["name"]
                    violations.append((h, unknown, path, det))
                else:
                    inconcl.append(h["name"] + ": solver counterexample did not reproduce natively (%s) - encoding/stub/invariant problem in /verif, not reported as a violation" % det)
        samples.append(sample)

    rc = 0
    for k, h, f in known_hits:
        say("KNOWN-FINDING: property=%s %s [%s: %s]" % (prop, k["what"], h["name"], f["label"]))
    # known findings whose witness no longer fails
    for k in known:
        if k.get("status") == "known" and k["property"] == prop and any(h["name"] == k["harness"] for h, _ in results):
            if not any(kk is k for kk, _, _ in known_hits):
                notes.append("known finding '%s' did not show up in this run (fixed upstream, or its witness harness was not conclusive)" % k["what"])
    for h, fs, path, det in violations:
        if path == "(not replayed)":
            say("ALSO-FAILING (same property, not replayed): %s" % h["name"])
        else:
            say("VIOLATION property=%s replay=%s" % (prop, path))
        for f in fs:
            say("    %s: %s @ %s" % (h["name"], f["desc"], f["loc"]))
        say("    native replay: " + det)
        rc = 1
    if inconcl:
        for i in inconcl:
            say("INCONCLUSIVE: " + i)
        if rc == 0:
            rc = 2

    wall = time.time() - t0
    ev = {
        "property_id": prop,
        "tier": tier,
        "seed": int(os.environ.get("VERIF_SEED", "0") or 0),
        "level": "model_checking",
        "coverage": {
            "evaluations": n_ok,
            "distinct_nontrivial": len(labels_ok) + n_cov_ok,
            "rule": "evaluations = CBMC property checks decided SUCCESS/UNREACHABLE by the SAT solver over the goto program compiled from /repo's current tree (each is one solver-decided claim over ALL values of the harness's symbolic inputs within the stated bounds); distinct_nontrivial = distinct property-labelled oracle assertions proved in distinct harnesses plus satisfied kani::cover! reachability witnesses (a cover is a satisfiable-path query proving the oracle is not vacuous)",
            "samples": samples,
            "obligations": len(results),
            "discharged": sum(1 for h, r in results if r["verdict"] == "SUCCESSFUL"),
            "checker_cmd": "cargo kani (Kani 0.68.0, CBMC 6.11.0, CaDiCaL) per harness; see samples[].cmd",
            "trusted_base": reg.get("trusted_base", []),
            "cbmc_checks_total": n_checks,
            "covers_total": n_cov,
            "covers_satisfied": n_cov_ok,
            "vccs_after_simplification": vccs,
            "solver_seconds": round(solver_s, 1),
            "harnesses": [h["name"] for h, _ in results],
            "outside_the_claim": pinfo.get("outside", []),
            "known_findings_reported": [k["what"] for k, _, _ in known_hits],
            "inconclusive": inconcl,
            "notes": notes,
            "exhaustive": False,
            "explanation": pinfo.get("claim", ""),
        },
        "assumptions": pinfo.get("assumptions", []) + reg.get("common_assumptions", []),
        "wall_s": round(wall, 1),
        "violations": len(violations),
    }
    os.makedirs(EVIDENCE, exist_ok=True)
    with open(os.path.join(EVIDENCE, prop + ".json"), "w") as f:
        json.dump(ev, f, indent=1)
    say("%s %s: %d harnesses, %d/%d CBMC checks ok, %d/%d covers, solver %.0fs, wall %.0fs -> exit %d" % (
        prop, tier, len(results), n_ok, n_checks, n_cov_ok, n_cov, solver_s, wall, rc))
    return rc


def main():
    ap = argparse.ArgumentParser()
    ap.add_argument("prop", nargs="?")
    ap.add_argument("--tier", default=os.environ.get("VERIF_TIER", "quick"))
    ap.add_argument("--only", action="append")
    ap.add_argument("--jobs", type=int)
    ap.add_argument("--no-cache", action="store_true")
    ap.add_argument("--no-replay", action="store_true")
    ap.add_argument("--replay")
    ap.add_argument("--list", action="store_true")
    a = ap.parse_args()
    if a.replay:
        ok, path, det = run_replay_file(a.replay)
        say(det)
        if ok:
            m = re.search(r"\(property (\S+)\)", open(a.replay).readline())
            say("VIOLATION property=%s replay=%s" % (m.group(1) if m else "?", a.replay))
            return 1
        return 0
    if a.list:
        reg = load_registry()
        for h in reg["harnesses"]:
            say("%-46s %-8s %s" % (h["name"], h["tier"], ",".join(h["props"])))
        return 0
    if a.tier not in ("quick", "thorough"):
        a.tier = "quick"
    use_cache = not (a.no_cache or os.environ.get("VERIF_NO_CACHE"))
    return check_property(a.prop, a.tier, only=a.only, jobs=a.jobs, use_cache=use_cache, do_replay=not a.no_replay)


if __name__ == "__main__":
    sys.exit(main())
