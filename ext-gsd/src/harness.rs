// C20: UserPrmDataType::write_value_to_slice and PrmBuilder (gsd-parser/src/lib.rs).
//
// Reference semantics (GSD specification, user parameter data): a parameter of type UnsignedN /
// SignedN occupies N/8 bytes at its offset, big endian, two's complement; Bit(b) is bit b of the
// byte at the offset; BitArea(first, last) are bits first..=last of that byte.  Setting a
// parameter changes exactly its bits.

use gsd_parser::{PrmBuilder, PrmValueConstraint, UserPrmData, UserPrmDataDefinition, UserPrmDataType};
use std::sync::Arc;

fn any_type() -> UserPrmDataType {
    match kani::any::<u8>() {
        0 => UserPrmDataType::Unsigned8,
        1 => UserPrmDataType::Unsigned16,
        2 => UserPrmDataType::Unsigned32,
        3 => UserPrmDataType::Signed8,
        4 => UserPrmDataType::Signed16,
        5 => UserPrmDataType::Signed32,
        6 => {
            let b: u8 = kani::any();
            kani::assume(b <= 7);
            UserPrmDataType::Bit(b)
        }
        _ => {
            let f: u8 = kani::any();
            let l: u8 = kani::any();
            kani::assume(f <= l && l <= 7);
            UserPrmDataType::BitArea(f, l)
        }
    }
}

fn ref_size(t: UserPrmDataType) -> usize {
    match t {
        UserPrmDataType::Unsigned8 | UserPrmDataType::Signed8 | UserPrmDataType::Bit(_) | UserPrmDataType::BitArea(_, _) => 1,
        UserPrmDataType::Unsigned16 | UserPrmDataType::Signed16 => 2,
        UserPrmDataType::Unsigned32 | UserPrmDataType::Signed32 => 4,
    }
}

/// inclusive value range of a data type
fn ref_range(t: UserPrmDataType) -> (i64, i64) {
    match t {
        UserPrmDataType::Unsigned8 => (0, 0xff),
        UserPrmDataType::Unsigned16 => (0, 0xffff),
        UserPrmDataType::Unsigned32 => (0, 0xffff_ffff),
        UserPrmDataType::Signed8 => (-0x80, 0x7f),
        UserPrmDataType::Signed16 => (-0x8000, 0x7fff),
        UserPrmDataType::Signed32 => (-0x8000_0000, 0x7fff_ffff),
        UserPrmDataType::Bit(_) => (0, 1),
        UserPrmDataType::BitArea(f, l) => (0, (1i64 << (l - f + 1)) - 1),
    }
}

/// bit mask (per byte of the 4-byte window) of the bits a parameter of this type owns
fn ref_mask(t: UserPrmDataType) -> [u8; 4] {
    match t {
        UserPrmDataType::Bit(b) => [1 << b, 0, 0, 0],
        UserPrmDataType::BitArea(f, l) => [(((1u16 << (l - f + 1)) - 1) << f) as u8, 0, 0, 0],
        _ => {
            let mut m = [0u8; 4];
            let mut i = 0;
            while i < ref_size(t) {
                m[i] = 0xff;
                i += 1;
            }
            m
        }
    }
}

/// the bits of an in-range value, positioned inside the 4-byte window
fn ref_bits(t: UserPrmDataType, v: i64) -> [u8; 4] {
    match t {
        UserPrmDataType::Bit(b) => [((v as u8) & 1) << b, 0, 0, 0],
        UserPrmDataType::BitArea(f, _) => [(v as u8) << f, 0, 0, 0],
        _ => {
            let n = ref_size(t);
            let mut out = [0u8; 4];
            let mut i = 0;
            while i < n {
                // big endian two's complement
                out[i] = (v >> (8 * (n - 1 - i))) as u8;
                i += 1;
            }
            out
        }
    }
}

/// `carve_bitarea_frame`: skip the 'other bits unchanged' obligation for BitArea (known finding
/// F9, pinned by the repository's own PRM snapshot; asserted alone by the witness harness).
fn kernel(carve_bitarea_frame: bool) {
    let t = any_type();
    let v: i64 = kani::any();
    let before: [u8; 4] = kani::any();
    let mut s = before;
    let res = t.write_value_to_slice(v, &mut s);
    let (lo, hi) = ref_range(t);
    let is_bitarea = matches!(t, UserPrmDataType::BitArea(_, _));
    assert!(t.size() == ref_size(t), "C20/size: a data type occupies the bytes its width defines");
    assert!(res.is_ok() == (v >= lo && v <= hi), "C20/range: a value is accepted exactly if it lies in the data type's range (signed types: their signed range)");
    match res {
        Ok(()) => {
            let m = ref_mask(t);
            let bits = ref_bits(t, v);
            let mut i = 0;
            while i < 4 {
                assert!(s[i] & m[i] == bits[i] & m[i], "C20/bits-value: the parameter's bits hold the value, big endian two's complement");
                if !(carve_bitarea_frame && is_bitarea) {
                    assert!(s[i] & !m[i] == before[i] & !m[i], "C20/bits-frame: setting a parameter changes no bit outside its own bits");
                }
                i += 1;
            }
            kani::cover!(matches!(t, UserPrmDataType::Signed16) && v < 0, "cover: negative 16-bit value accepted");
            kani::cover!(matches!(t, UserPrmDataType::Bit(_)) && v == 0 && before[0] == 0xff, "cover: bit cleared in an all-ones byte");
            kani::cover!(is_bitarea && v > 0, "cover: bit area written");
        }
        Err(_) => {
            let mut i = 0;
            while i < 4 {
                assert!(s[i] == before[i], "C20/error-unchanged: a rejected value leaves the block unchanged");
                i += 1;
            }
            kani::cover!(matches!(t, UserPrmDataType::Signed8) && v == 128, "cover: out-of-range signed value rejected");
        }
    }
}

#[kani::proof]
#[kani::unwind(6)]
fn c20_kernel() {
    kernel(true);
}

/// Witness for known finding F9 (BitArea clobbers the neighbouring bits of its byte).
#[kani::proof]
#[kani::unwind(6)]
fn c20_kernel_bitarea_frame_witness() {
    let t = any_type();
    kani::assume(matches!(t, UserPrmDataType::BitArea(_, _)));
    let v: i64 = kani::any();
    let before: [u8; 4] = kani::any();
    let mut s = before;
    let res = t.write_value_to_slice(v, &mut s);
    kani::assume(res.is_ok());
    let m = ref_mask(t);
    assert!(s[0] & !m[0] == before[0] & !m[0], "C20/bits-frame: setting a bit area changes no bit outside the area");
    kani::cover!(true, "cover: bit area written");
}

// ==========================================================================================
// PrmBuilder: constants overlaid with defaults, then set_prm
// ==========================================================================================

/// `Arc::drop_slow` stub: every Arc in this harness is leaked on purpose, so a count can never
/// legitimately reach zero; CBMC cannot fold the count read from the heap and would otherwise
/// explore BTreeMap drop navigation (deallocation is not C20's subject).
fn arc_drop_noop<T: ?Sized, A: std::alloc::Allocator>(_this: &mut Arc<T, A>) {}

fn any_small_type() -> UserPrmDataType {
    match kani::any::<u8>() {
        0 => UserPrmDataType::Unsigned8,
        1 => UserPrmDataType::Unsigned16,
        2 => UserPrmDataType::Signed8,
        3 => UserPrmDataType::Signed16,
        4 => {
            let b: u8 = kani::any();
            kani::assume(b <= 7);
            UserPrmDataType::Bit(b)
        }
        _ => {
            // whole-byte bit area: the known BitArea defect (F9) does not show for it
            UserPrmDataType::BitArea(0, 7)
        }
    }
}

fn any_constraint() -> PrmValueConstraint {
    match kani::any::<u8>() {
        0 => PrmValueConstraint::Unconstrained,
        _ => PrmValueConstraint::MinMax(kani::any(), kani::any()),
    }
}

/// Reference: write value `v` of type `t` at `off` into `block` (value known to be in range).
fn ref_overlay(block: &mut [u8; 8], off: usize, t: UserPrmDataType, v: i64) {
    let m = ref_mask(t);
    let bits = ref_bits(t, v);
    let mut i = 0;
    while i < 4 {
        if off + i < 8 {
            block[off + i] = (block[off + i] & !m[i]) | (bits[i] & m[i]);
        }
        i += 1;
    }
}

fn in_range(t: UserPrmDataType, v: i64) -> bool {
    let (lo, hi) = ref_range(t);
    v >= lo && v <= hi
}

#[kani::proof]
#[kani::unwind(10)]
#[kani::stub(std::sync::Arc::drop_slow, arc_drop_noop)]
fn c20_builder_set_prm() {
    // layout: 4 constant bytes at offset 0; parameter "a" and parameter "b" at symbolic offsets
    // 0..=2 (they may share a byte), symbolic types, defaults and constraints
    let consts: [u8; 4] = kani::any();
    let (ta, tb) = (any_small_type(), any_small_type());
    let (oa, ob): (usize, usize) = (kani::any(), kani::any());
    kani::assume(oa <= 2 && ob <= 2);
    let (da, db): (i64, i64) = (kani::any(), kani::any());
    let (ca, cb) = (any_constraint(), any_constraint());
    let ca_ref = ca.clone();
    let def_a = Arc::new(UserPrmDataDefinition { name: String::from("a"), data_type: ta, default_value: da, constraint: ca, text_ref: None, changeable: true, visible: true });
    let def_b = Arc::new(UserPrmDataDefinition { name: String::from("b"), data_type: tb, default_value: db, constraint: cb, text_ref: None, changeable: true, visible: true });
    let desc = UserPrmData { length: 4, data_const: vec![(0, consts.to_vec())], data_ref: vec![(oa, def_a), (ob, def_b)] };
    let desc: &'static UserPrmData = Box::leak(Box::new(desc));

    // reference block after construction
    let mut want = [0u8; 8];
    want[..4].copy_from_slice(&consts);
    let mut want_len = 4usize;
    let defaults_ok = in_range(ta, da) && in_range(tb, db);
    match PrmBuilder::new(desc) {
        Err(_) => {
            assert!(!defaults_ok, "C20/defaults: a description whose defaults fit their data types builds");
            kani::cover!(true, "cover: out-of-range default rejected as an error value");
        }
        Ok(mut b) => {
            assert!(defaults_ok, "C20/defaults: a default outside its data type is rejected, not written");
            ref_overlay(&mut want, oa, ta, da);
            ref_overlay(&mut want, ob, tb, db);
            if oa + ref_size(ta) > want_len {
                want_len = oa + ref_size(ta);
            }
            if ob + ref_size(tb) > want_len {
                want_len = ob + ref_size(tb);
            }
            {
                let got = b.as_bytes();
                assert!(got.len() == want_len, "C20/overlay: the block is as long as constants and parameters need");
                let mut i = 0;
                while i < want_len {
                    assert!(got[i] == want[i], "C20/overlay: the initial block equals the constants overlaid with every parameter's default");
                    i += 1;
                }
            }
            // one set_prm call: parameter a, an unknown name
            let v: i64 = kani::any();
            let known: bool = kani::any();
            let res = b.set_prm(if known { "a" } else { "x" }, v).map(|_| ());
            let accept = known && in_range(ta, v) && ca_ref.is_valid(v);
            assert!(res.is_ok() == accept, "C20/reject: a value is accepted exactly if the name is known, the constraint admits it and it fits the data type");
            if accept {
                ref_overlay(&mut want, oa, ta, v);
            }
            let got = b.as_bytes();
            assert!(got.len() == want_len, "C20/overlay: setting a parameter never changes the block length");
            let mut i = 0;
            while i < want_len {
                assert!(got[i] == want[i], "C20/set: an accepted value changes exactly the parameter's bits; a rejected call leaves the block unchanged");
                i += 1;
            }
            kani::cover!(accept && oa == ob, "cover: accepted value for a parameter sharing its byte with another");
            kani::cover!(!accept && known, "cover: known parameter, value rejected");
            std::mem::forget(b);
        }
    }
}
