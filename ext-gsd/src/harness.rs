// C20: UserPrmDataType::write_value_to_slice and PrmBuilder (gsd-parser/src/lib.rs).
//
// Reference semantics (GSD specification, user parameter data): a parameter of type UnsignedN /
// SignedN occupies N/8 bytes at its offset, big endian, two's complement; Bit(b) is bit b of the
// byte at the offset; BitArea(first, last) are bits first..=last of that byte.  Setting a
// parameter changes exactly its bits.

use gsd_parser::{PrmBuilder, PrmValueConstraint, UserPrmData, UserPrmDataDefinition, UserPrmDataType};
use std::sync::Arc;

fn any_type() -> UserPrmDataType {
    match kani::any::<u8>() {
        0 => UserPrmDataType::Unsigned8,
        1 => UserPrmDataType::Unsigned16,
        2 => UserPrmDataType::Unsigned32,
        3 => UserPrmDataType::Signed8,
        4 => UserPrmDataType::Signed16,
        5 => UserPrmDataType::Signed32,
        6 => {
            let b: u8 = kani::any();
            kani::assume(b <= 7);
            UserPrmDataType::Bit(b)
        }
        _ => {
            let f: u8 = kani::any();
            let l: u8 = kani::any();
            kani::assume(f <= l && l <= 7);
            UserPrmDataType::BitArea(f, l)
        }
    }
}

fn ref_size(t: UserPrmDataType) -> usize {
    match t {
        UserPrmDataType::Unsigned8 | UserPrmDataType::Signed8 | UserPrmDataType::Bit(_) | UserPrmDataType::BitArea(_, _) => 1,
        UserPrmDataType::Unsigned16 | UserPrmDataType::Signed16 => 2,
        UserPrmDataType::Unsigned32 | UserPrmDataType::Signed32 => 4,
    }
}

/// inclusive value range of a data type
fn ref_range(t: UserPrmDataType) -> (i64, i64) {
    match t {
        UserPrmDataType::Unsigned8 => (0, 0xff),
        UserPrmDataType::Unsigned16 => (0, 0xffff),
        UserPrmDataType::Unsigned32 => (0, 0xffff_ffff),
        UserPrmDataType::Signed8 => (-0x80, 0x7f),
        UserPrmDataType::Signed16 => (-0x8000, 0x7fff),
        UserPrmDataType::Signed32 => (-0x8000_0000, 0x7fff_ffff),
        UserPrmDataType::Bit(_) => (0, 1),
        UserPrmDataType::BitArea(f, l) => (0, (1i64 << (l - f + 1)) - 1),
    }
}

/// bit mask (per byte of the 4-byte window) of the bits a parameter of this type owns
fn ref_mask(t: UserPrmDataType) -> [u8; 4] {
    match t {
        UserPrmDataType::Bit(b) => [1 << b, 0, 0, 0],
        UserPrmDataType::BitArea(f, l) => [(((1u16 << (l - f + 1)) - 1) << f) as u8, 0, 0, 0],
        _ => {
            let mut m = [0u8; 4];
            let mut i = 0;
            while i < ref_size(t) {
                m[i] = 0xff;
                i += 1;
            }
            m
        }
    }
}

/// the bits of an in-range value, positioned inside the 4-byte window
fn ref_bits(t: UserPrmDataType, v: i64) -> [u8; 4] {
    match t {
        UserPrmDataType::Bit(b) => [((v as u8) & 1) << b, 0, 0, 0],
        UserPrmDataType::BitArea(f, _) => [(v as u8) << f, 0, 0, 0],
        _ => {
            let n = ref_size(t);
            let mut out = [0u8; 4];
            let mut i = 0;
            while i < n {
                // big endian two's complement
                out[i] = (v >> (8 * (n - 1 - i))) as u8;
                i += 1;
            }
            out
        }
    }
}

/// `carve_bitarea_frame`: skip the 'other bits unchanged' obligation for BitArea (known finding
/// F9, pinned by the repository's own PRM snapshot; asserted alone by the witness harness).
fn kernel(carve_bitarea_frame: bool) {
    let t = any_type();
    let v: i64 = kani::any();
    let before: [u8; 4] = kani::any();
    let mut s = before;
    let res = t.write_value_to_slice(v, &mut s);
    let (lo, hi) = ref_range(t);
    let is_bitarea = matches!(t, UserPrmDataType::BitArea(_, _));
    assert!(t.size() == ref_size(t), "C20/size: a data type occupies the bytes its width defines");
    assert!(res.is_ok() == (v >= lo && v <= hi), "C20/range: a value is accepted exactly if it lies in the data type's range (signed types: their signed range)");
    match res {
        Ok(()) => {
            let m = ref_mask(t);
            let bits = ref_bits(t, v);
            let mut i = 0;
            while i < 4 {
                assert!(s[i] & m[i] == bits[i] & m[i], "C20/bits-value: the parameter's bits hold the value, big endian two's complement");
                if !(carve_bitarea_frame && is_bitarea) {
                    assert!(s[i] & !m[i] == before[i] & !m[i], "C20/bits-frame: setting a parameter changes no bit outside its own bits");
                }
                i += 1;
            }
            kani::cover!(matches!(t, UserPrmDataType::Signed16) && v < 0, "cover: negative 16-bit value accepted");
            kani::cover!(matches!(t, UserPrmDataType::Bit(_)) && v == 0 && before[0] == 0xff, "cover: bit cleared in an all-ones byte");
            kani::cover!(is_bitarea && v > 0, "cover: bit area written");
        }
        Err(_) => {
            let mut i = 0;
            while i < 4 {
                assert!(s[i] == before[i], "C20/error-unchanged: a rejected value leaves the block unchanged");
                i += 1;
            }
            kani::cover!(matches!(t, UserPrmDataType::Signed8) && v == 128, "cover: out-of-range signed value rejected");
        }
    }
}

#[kani::proof]
#[kani::unwind(6)]
fn c20_kernel() {
    kernel(true);
}

/// Witness for known finding F9 (BitArea clobbers the neighbouring bits of its byte).
#[kani::proof]
#[kani::unwind(6)]
fn c20_kernel_bitarea_frame_witness() {
    let t = any_type();
    kani::assume(matches!(t, UserPrmDataType::BitArea(_, _)));
    let v: i64 = kani::any();
    let before: [u8; 4] = kani::any();
    let mut s = before;
    let res = t.write_value_to_slice(v, &mut s);
    kani::assume(res.is_ok());
    let m = ref_mask(t);
    assert!(s[0] & !m[0] == before[0] & !m[0], "C20/bits-frame: setting a bit area changes no bit outside the area");
    kani::cover!(true, "cover: bit area written");
}

// ==========================================================================================
// PrmBuilder: constants overlaid with defaults, then set_prm
// ==========================================================================================

/// `Arc::drop_slow` stub: every Arc in this harness is leaked on purpose, so a count can never
/// legitimately reach zero; CBMC cannot fold the count read from the heap and would otherwise
/// explore BTreeMap drop navigation (deallocation is not C20's subject).
fn arc_drop_noop<T: ?Sized, A: std::alloc::Allocator>(_this: &mut Arc<T, A>) {}

/// Minimal builder harness: one Unsigned8 parameter "a" at offset 1 over 2 constant bytes, a
/// symbolic MinMax constraint and a one-entry text table; one call of set_prm or
/// set_prm_from_text with symbolic value / known or unknown name and text.
#[kani::proof]
#[kani::unwind(6)]
#[kani::stub(std::sync::Arc::drop_slow, arc_drop_noop)]
fn c20_builder_min() {
    let consts: [u8; 2] = kani::any();
    let (lo, hi): (i64, i64) = (kani::any(), kani::any());
    let dflt: i64 = kani::any();
    let text_value: i64 = kani::any();
    let mut texts = std::collections::BTreeMap::new();
    texts.insert(String::from("t"), text_value);
    let def_a = Arc::new(UserPrmDataDefinition {
        name: String::from("a"),
        data_type: UserPrmDataType::Unsigned8,
        default_value: dflt,
        constraint: PrmValueConstraint::MinMax(lo, hi),
        text_ref: Some(Arc::new(texts)),
        changeable: true,
        visible: true,
    });
    let desc = UserPrmData { length: 2, data_const: vec![(0, consts.to_vec())], data_ref: vec![(1, def_a)] };
    let desc: &'static UserPrmData = Box::leak(Box::new(desc));
    let fits = |v: i64| v >= 0 && v <= 255;
    match PrmBuilder::new(desc) {
        Err(_) => assert!(!fits(dflt), "C20/defaults: a description whose defaults fit their data types builds"),
        Ok(mut b) => {
            assert!(fits(dflt), "C20/defaults: a default outside its data type is rejected, not written");
            assert!(b.as_bytes().len() == 2 && b.as_bytes()[0] == consts[0] && b.as_bytes()[1] == dflt as u8, "C20/overlay: the initial block equals the constants overlaid with every parameter's default");
            let known: bool = kani::any();
            let by_text: bool = kani::any();
            let v: i64 = kani::any();
            let (res, value, text_known) = if by_text {
                let good_text: bool = kani::any();
                (b.set_prm_from_text(if known { "a" } else { "x" }, if good_text { "t" } else { "u" }).map(|_| ()), text_value, good_text)
            } else {
                (b.set_prm(if known { "a" } else { "x" }, v).map(|_| ()), v, true)
            };
            let accept = known && text_known && value >= lo && value <= hi && fits(value);
            assert!(res.is_ok() == accept, "C20/reject: a value (given directly or through its text) is accepted exactly if name and text are known, the declared range admits it and it fits the data type");
            let want1 = if accept { value as u8 } else { dflt as u8 };
            assert!(b.as_bytes().len() == 2 && b.as_bytes()[0] == consts[0] && b.as_bytes()[1] == want1, "C20/set: an accepted value changes exactly the parameter's byte; a rejected call leaves the block unchanged");
            kani::cover!(by_text && accept, "cover: value set through its text");
            kani::cover!(by_text && known && text_known && !accept, "cover: text whose value violates the declared range");
            kani::cover!(!by_text && !known, "cover: unknown parameter name");
            std::mem::forget(b);
        }
    }
}

// ==========================================================================================
// declared value constraints (MinMax / Enum / none): the predicate in front of every write
// ==========================================================================================

fn constraint_kernel<const N: usize>() {
    let x: i64 = kani::any();
    let kind: u8 = kani::any();
    kani::assume(kind <= 2);
    let (lo, hi): (i64, i64) = (kani::any(), kani::any());
    // N listed values in ANY order (a GSD file lists enumeration values in file order, not
    // sorted), duplicates allowed; concrete list length (a symbolic one ran out of memory)
    let vals: [i64; N] = kani::any();
    let mut member = false;
    let mut i = 0;
    while i < N {
        member |= vals[i] == x;
        i += 1;
    }
    let (c, want) = match kind {
        0 => (PrmValueConstraint::MinMax(lo, hi), lo <= x && x <= hi),
        1 => (PrmValueConstraint::Enum(vals.to_vec()), member),
        _ => (PrmValueConstraint::Unconstrained, true),
    };
    assert!(c.is_valid(x) == want, "C20/constraint: a value satisfies the declared constraint exactly if it lies in the declared range / is one of the listed values (in whatever order they are listed)");
    let r = c.assert_valid(x);
    assert!(r.is_ok() == want, "C20/constraint: the check in front of every write accepts exactly the values the declared constraint admits");
    kani::cover!(kind == 1 && want && vals[0] > vals[1] && vals[N - 1] == x && vals[0] != x && vals[1] != x, "cover: last value of an unsorted enumeration accepted");
    kani::cover!(kind == 1 && !want, "cover: value outside the enumeration rejected");
    kani::cover!(kind == 0 && !want, "cover: value outside the declared range rejected");
    std::mem::forget(r);
    std::mem::forget(c);
}

#[kani::proof]
#[kani::unwind(7)]
fn c20_constraint_kernel() {
    constraint_kernel::<4>();
}

#[kani::proof]
#[kani::unwind(7)]
fn c20_constraint_kernel_5_t() {
    constraint_kernel::<5>();
}

/// Builder with an enumeration constraint: one Unsigned8 parameter "a" at offset 1 over 2 constant
/// bytes, three listed values in any order; one set_prm call.
#[kani::proof]
#[kani::unwind(6)]
#[kani::stub(std::sync::Arc::drop_slow, arc_drop_noop)]
fn c20_builder_enum() {
    let consts: [u8; 2] = kani::any();
    let e: [i64; 3] = kani::any();
    let dflt: i64 = kani::any();
    kani::assume(dflt >= 0 && dflt <= 255);
    let def_a = Arc::new(UserPrmDataDefinition {
        name: String::from("a"),
        data_type: UserPrmDataType::Unsigned8,
        default_value: dflt,
        constraint: PrmValueConstraint::Enum(vec![e[0], e[1], e[2]]),
        text_ref: None,
        changeable: true,
        visible: true,
    });
    let desc = UserPrmData { length: 2, data_const: vec![(0, consts.to_vec())], data_ref: vec![(1, def_a)] };
    let desc: &'static UserPrmData = Box::leak(Box::new(desc));
    let fits = |v: i64| v >= 0 && v <= 255;
    match PrmBuilder::new(desc) {
        Err(_) => assert!(false, "C20/defaults: a description whose defaults fit their data types builds"),
        Ok(mut b) => {
            let v: i64 = kani::any();
            let res = b.set_prm("a", v).map(|_| ());
            let accept = (v == e[0] || v == e[1] || v == e[2]) && fits(v);
            assert!(res.is_ok() == accept, "C20/reject: a value is accepted exactly if it is one of the listed values (in whatever order) and fits the data type");
            let want1 = if accept { v as u8 } else { dflt as u8 };
            assert!(b.as_bytes().len() == 2 && b.as_bytes()[0] == consts[0] && b.as_bytes()[1] == want1, "C20/set: an accepted value changes exactly the parameter's byte; a rejected call leaves the block unchanged");
            kani::cover!(accept && v == e[2] && e[0] > e[1] && v != e[0] && v != e[1], "cover: last value of an unsorted enumeration set");
            kani::cover!(!accept && fits(v), "cover: unlisted value rejected");
            std::mem::forget(res);
            std::mem::forget(b);
        }
    }
}
