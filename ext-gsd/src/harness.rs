// C20: UserPrmDataType::write_value_to_slice and PrmBuilder (gsd-parser/src/lib.rs).
//
// Reference semantics (GSD specification, user parameter data): a parameter of type UnsignedN /
// SignedN occupies N/8 bytes at its offset, big endian, two's complement; Bit(b) is bit b of the
// byte at the offset; BitArea(first, last) are bits first..=last of that byte.  Setting a
// parameter changes exactly its bits.

use gsd_parser::{PrmBuilder, PrmValueConstraint, UserPrmData, UserPrmDataDefinition, UserPrmDataType};
use std::sync::Arc;

fn any_type() -> UserPrmDataType {
    match kani::any::<u8>() {
        0 => UserPrmDataType::Unsigned8,
        1 => UserPrmDataType::Unsigned16,
        2 => UserPrmDataType::Unsigned32,
        3 => UserPrmDataType::Signed8,
        4 => UserPrmDataType::Signed16,
        5 => UserPrmDataType::Signed32,
        6 => {
            let b: u8 = kani::any();
            kani::assume(b <= 7);
            UserPrmDataType::Bit(b)
        }
        _ => {
            let f: u8 = kani::any();
            let l: u8 = kani::any();
            kani::assume(f <= l && l <= 7);
            UserPrmDataType::BitArea(f, l)
        }
    }
}

fn ref_size(t: UserPrmDataType) -> usize {
    match t {
        UserPrmDataType::Unsigned8 | UserPrmDataType::Signed8 | UserPrmDataType::Bit(_) | UserPrmDataType::BitArea(_, _) => 1,
        UserPrmDataType::Unsigned16 | UserPrmDataType::Signed16 => 2,
        UserPrmDataType::Unsigned32 | UserPrmDataType::Signed32 => 4,
    }
}

/// inclusive value range of a data type
fn ref_range(t: UserPrmDataType) -> (i64, i64) {
    match t {
        UserPrmDataType::Unsigned8 => (0, 0xff),
        UserPrmDataType::Unsigned16 => (0, 0xffff),
        UserPrmDataType::Unsigned32 => (0, 0xffff_ffff),
        UserPrmDataType::Signed8 => (-0x80, 0x7f),
        UserPrmDataType::Signed16 => (-0x8000, 0x7fff),
        UserPrmDataType::Signed32 => (-0x8000_0000, 0x7fff_ffff),
        UserPrmDataType::Bit(_) => (0, 1),
        UserPrmDataType::BitArea(f, l) => (0, (1i64 << (l - f + 1)) - 1),
    }
}

/// bit mask (per byte of the 4-byte window) of the bits a parameter of this type owns
fn ref_mask(t: UserPrmDataType) -> [u8; 4] {
    match t {
        UserPrmDataType::Bit(b) => [1 << b, 0, 0, 0],
        UserPrmDataType::BitArea(f, l) => [(((1u16 << (l - f + 1)) - 1) << f) as u8, 0, 0, 0],
        _ => {
            let mut m = [0u8; 4];
            let mut i = 0;
            while i < ref_size(t) {
                m[i] = 0xff;
                i += 1;
            }
            m
        }
    }
}

/// the bits of an in-range value, positioned inside the 4-byte window
fn ref_bits(t: UserPrmDataType, v: i64) -> [u8; 4] {
    match t {
        UserPrmDataType::Bit(b) => [((v as u8) & 1) << b, 0, 0, 0],
        UserPrmDataType::BitArea(f, _) => [(v as u8) << f, 0, 0, 0],
        _ => {
            let n = ref_size(t);
            let mut out = [0u8; 4];
            let mut i = 0;
            while i < n {
                // big endian two's complement
                out[i] = (v >> (8 * (n - 1 - i))) as u8;
                i += 1;
            }
            out
        }
    }
}

/// `carve_bitarea_frame`: skip the 'other bits unchanged' obligation for BitArea (known finding
/// F9, pinned by the repository's own PRM snapshot; asserted alone by the witness harness).
fn kernel(carve_bitarea_frame: bool) {
    let t = any_type();
    let v: i64 = kani::any();
    let before: [u8; 4] = kani::any();
    let mut s = before;
    let res = t.write_value_to_slice(v, &mut s);
    let (lo, hi) = ref_range(t);
    let is_bitarea = matches!(t, UserPrmDataType::BitArea(_, _));
    assert!(t.size() == ref_size(t), "C20/size: a data type occupies the bytes its width defines");
    assert!(res.is_ok() == (v >= lo && v <= hi), "C20/range: a value is accepted exactly if it lies in the data type's range (signed types: their signed range)");
    match res {
        Ok(()) => {
            let m = ref_mask(t);
            let bits = ref_bits(t, v);
            let mut i = 0;
            while i < 4 {
                assert!(s[i] & m[i] == bits[i] & m[i], "C20/bits-value: the parameter's bits hold the value, big endian two's complement");
                if !(carve_bitarea_frame && is_bitarea) {
                    assert!(s[i] & !m[i] == before[i] & !m[i], "C20/bits-frame: setting a parameter changes no bit outside its own bits");
                }
                i += 1;
            }
            kani::cover!(matches!(t, UserPrmDataType::Signed16) && v < 0, "cover: negative 16-bit value accepted");
            kani::cover!(matches!(t, UserPrmDataType::Bit(_)) && v == 0 && before[0] == 0xff, "cover: bit cleared in an all-ones byte");
            kani::cover!(is_bitarea && v > 0, "cover: bit area written");
        }
        Err(_) => {
            let mut i = 0;
            while i < 4 {
                assert!(s[i] == before[i], "C20/error-unchanged: a rejected value leaves the block unchanged");
                i += 1;
            }
            kani::cover!(matches!(t, UserPrmDataType::Signed8) && v == 128, "cover: out-of-range signed value rejected");
        }
    }
}

#[kani::proof]
#[kani::unwind(6)]
fn c20_kernel() {
    kernel(true);
}

/// Witness for known finding F9 (BitArea clobbers the neighbouring bits of its byte).
#[kani::proof]
#[kani::unwind(6)]
fn c20_kernel_bitarea_frame_witness() {
    let t = any_type();
    kani::assume(matches!(t, UserPrmDataType::BitArea(_, _)));
    let v: i64 = kani::any();
    let before: [u8; 4] = kani::any();
    let mut s = before;
    let res = t.write_value_to_slice(v, &mut s);
    kani::assume(res.is_ok());
    let m = ref_mask(t);
    assert!(s[0] & !m[0] == before[0] & !m[0], "C20/bits-frame: setting a bit area changes no bit outside the area");
    kani::cover!(true, "cover: bit area written");
}
