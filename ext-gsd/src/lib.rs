//! C20 harnesses: user-parameter block packing of `gsd-parser` through its public API.
#![cfg_attr(kani, feature(allocator_api))]

#[cfg(kani)]
mod harness;
