// native replay for harness c12_gap_lemma (property C12), crate profirust, file fdl_active.rs
// re-run: /verif/check.py --replay /verif/replays/C12/c12_gap_lemma.rs
// failing check: "C12/gap-not-self: the station never polls itself"
#[test]
fn kani_concrete_playback_c12_gap_lemma_10177867954228570006() {
    let concrete_vals: Vec<Vec<u8>> = vec![
        // 24
        vec![24],
        // 64
        vec![64],
        // 100
        vec![100],
        // 72057594042122240
        vec![0, 0, 64, 0, 0, 0, 0, 1, 0, 0, 0, 0, 0, 0, 0, 0],
        // 255
        vec![255],
        // 23
        vec![23],
    ];
    kani::concrete_playback_run(concrete_vals, c12_gap_lemma);
}

// failing check: "C12/gap-range: a polled address lies strictly between this station and its successor (cyclically)"
#[test]
fn kani_concrete_playback_c12_gap_lemma_4065931875709071576() {
    let concrete_vals: Vec<Vec<u8>> = vec![
        // 1
        vec![1],
        // 67
        vec![67],
        // 100
        vec![100],
        // 10633823966279326983230456482242773509
        vec![5, 66, 0, 0, 0, 0, 0, 0, 0, 0, 0, 0, 0, 0, 0, 8],
        // 255
        vec![255],
        // 66
        vec![66],
    ];
    kani::concrete_playback_run(concrete_vals, c12_gap_lemma);
}
