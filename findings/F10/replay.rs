// native replay for harness c08_request_pair_q (property C08), crate profirust, file dp_peripheral.rs
// re-run: /verif/check.py --replay /verif/replays/C08/c08_request_pair_q.rs
// failing check: "C08/first-after-offline: the first request after the Offline event carries FCV=0/FCB=1"
#[test]
fn kani_concrete_playback_c08_request_pair_q_11628187674128755420() {
    let concrete_vals: Vec<Vec<u8>> = vec![
        // 3
        vec![3],
        // 6
        vec![6],
        // 0ul
        vec![0, 0, 0, 0, 0, 0, 0, 0],
        // 64
        vec![64],
        // 185
        vec![185],
        // 7
        vec![7],
        // 255
        vec![255],
        // 99
        vec![99],
        // 1
        vec![1],
        // 255
        vec![255],
        // 1
        vec![1],
        // 255
        vec![255],
        // 255
        vec![255],
        // 1
        vec![1],
        // 70
        vec![70],
        // 2ul
        vec![2, 0, 0, 0, 0, 0, 0, 0],
        // 0
        vec![0],
        // 3
        vec![3],
        // 1
        vec![1],
        // 2
        vec![2],
        // 0
        vec![0],
        // 51969
        vec![1, 203],
        // 1
        vec![1],
        // 1
        vec![1],
        // 255
        vec![255],
        // 65535
        vec![255, 255],
        // 1
        vec![1],
        // 4294967295
        vec![255, 255, 255, 255],
        // 0
        vec![0],
        // 0
        vec![0],
        // 0
        vec![0],
        // 186
        vec![186],
        // 250
        vec![250],
        // 7
        vec![7],
        // 255
        vec![255],
        // 8
        vec![8],
        // 1
        vec![1],
        // 186
        vec![186],
        // 250
        vec![250],
        // 1
        vec![1],
    ];
    kani::concrete_playback_run(concrete_vals, c08_request_pair_q);
}

// failing check: "C08/same-fcb-different-service: two consecutive requests with the same frame count bit are the same service to the same destination (a retransmission)"
#[test]
fn kani_concrete_playback_c08_request_pair_q_1945617597696970502() {
    let concrete_vals: Vec<Vec<u8>> = vec![
        // 7
        vec![7],
        // 14
        vec![14],
        // 2ul
        vec![2, 0, 0, 0, 0, 0, 0, 0],
        // 64
        vec![64],
        // 185
        vec![185],
        // 7
        vec![7],
        // 2
        vec![2],
        // 13
        vec![13],
        // 3
        vec![3],
        // 255
        vec![255],
        // 1
        vec![1],
        // 255
        vec![255],
        // 255
        vec![255],
        // 0
        vec![0],
        // 3
        vec![3],
        // 2ul
        vec![2, 0, 0, 0, 0, 0, 0, 0],
        // 0
        vec![0],
        // 4
        vec![4],
        // 1
        vec![1],
        // 2
        vec![2],
        // 0
        vec![0],
        // 25601
        vec![1, 100],
        // 1
        vec![1],
        // 1
        vec![1],
        // 255
        vec![255],
        // 65535
        vec![255, 255],
        // 1
        vec![1],
        // 4294967295
        vec![255, 255, 255, 255],
        // 1
        vec![1],
        // 0
        vec![0],
        // 1
        vec![1],
        // 186
        vec![186],
        // 250
        vec![250],
        // 7
        vec![7],
        // 255
        vec![255],
        // 8
        vec![8],
        // 1
        vec![1],
        // 186
        vec![186],
        // 250
        vec![250],
        // 8ul
        vec![8, 0, 0, 0, 0, 0, 0, 0],
        // 0
        vec![0],
        // 1
        vec![1],
        // 62
        vec![62],
        // 1
        vec![1],
        // 61
        vec![61],
        // 255
        vec![255],
        // 6
        vec![6],
        // 1
        vec![1],
    ];
    kani::concrete_playback_run(concrete_vals, c08_request_pair_q);
}

// failing check: index out of bounds: the length is less than or equal to the given index
#[test]
fn kani_concrete_playback_c08_request_pair_q_10161481083716630782() {
    let concrete_vals: Vec<Vec<u8>> = vec![
        // 249
        vec![249],
        // 249
        vec![249],
        // 0ul
        vec![0, 0, 0, 0, 0, 0, 0, 0],
        // 149
        vec![149],
        // 3
        vec![3],
        // 255
        vec![255],
        // 0
        vec![0],
        // 81
        vec![81],
        // 11
        vec![11],
        // 255
        vec![255],
        // 0
        vec![0],
        // 1
        vec![1],
        // 53
        vec![53],
        // 2ul
        vec![2, 0, 0, 0, 0, 0, 0, 0],
        // 0
        vec![0],
        // 1
        vec![1],
        // 0
        vec![0],
        // 255
        vec![255],
        // 0
        vec![0],
        // 65535
        vec![255, 255],
        // 0
        vec![0],
        // 0
        vec![0],
        // 255
        vec![255],
        // 65535
        vec![255, 255],
        // 1
        vec![1],
        // 4294967295
        vec![255, 255, 255, 255],
    ];
    kani::concrete_playback_run(concrete_vals, c08_request_pair_q);
}
