// native replay for harness c14_master_empty_terminates (property C14), crate profirust, file dp_master.rs
// hang witness: the named test is part of the harness file; re-run: /verif/check.py --replay /verif/replays/C14/c14_master_empty_terminates.hang.rs
// hang_test hang_c14_master_empty
