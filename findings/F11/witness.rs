// native replay for harness c14_master_transmit_2slots_q (property C14), crate profirust, file dp_master.rs
// handwritten concrete witness (part of the harness file); re-run: /verif/check.py --replay /verif/findings/F11/witness.rs
// witness_test witness_f11_two_offline_events
