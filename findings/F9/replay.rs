// native replay for harness c20_kernel_bitarea_frame_witness (property C20), crate ext-gsd, file harness.rs
// re-run: /verif/check.py --replay /verif/replays/C20/c20_kernel_bitarea_frame_witness.rs
// failing check: "C20/bits-frame: setting a bit area changes no bit outside the area"
#[test]
fn kani_concrete_playback_c20_kernel_bitarea_frame_witness_7488505106172358795() {
    let concrete_vals: Vec<Vec<u8>> = vec![
        // 255
        vec![255],
        // 7
        vec![7],
        // 7
        vec![7],
        // 0
        vec![0, 0, 0, 0, 0, 0, 0, 0],
        // 129
        vec![129],
        // 255
        vec![255],
        // 255
        vec![255],
        // 255
        vec![255],
    ];
    kani::concrete_playback_run(concrete_vals, c20_kernel_bitarea_frame_witness);
}
