// native replay for harness c03_transmit_step_q (property C08), crate profirust, file dp_peripheral.rs
// re-run: /verif/check.py --replay /verif/replays/C08/c03_transmit_step_q.rs
// failing check: "C08/first-after-offline: the frame count bit is re-initialised (FCV=0/FCB=1) when the peripheral is declared offline"
#[test]
fn kani_concrete_playback_c03_transmit_step_q_7631352493478557762() {
    let concrete_vals: Vec<Vec<u8>> = vec![
        // 255
        vec![255],
        // 255
        vec![255],
        // 255
        vec![255],
        // 255
        vec![255],
        // 0ul
        vec![0, 0, 0, 0, 0, 0, 0, 0],
        // 255
        vec![255],
        // 255
        vec![255],
        // 255
        vec![255],
        // 255
        vec![255],
        // 3ul
        vec![3, 0, 0, 0, 0, 0, 0, 0],
        // 255
        vec![255],
        // 171
        vec![171],
        // 255
        vec![255],
        // 255
        vec![255],
        // 0ul
        vec![0, 0, 0, 0, 0, 0, 0, 0],
        // 0
        vec![0],
        // 0
        vec![0],
        // 106
        vec![106],
        // 4
        vec![4],
        // 247
        vec![247],
        // 1
        vec![1],
        // 252
        vec![252],
        // 255
        vec![255],
        // 1
        vec![1],
        // 74
        vec![74],
        // 4ul
        vec![4, 0, 0, 0, 0, 0, 0, 0],
        // 1
        vec![1],
        // 65535
        vec![255, 255],
        // 65535
        vec![255, 255],
        // 1
        vec![1],
        // 255
        vec![255],
        // 4
        vec![4],
        // 5
        vec![5],
        // 1
        vec![1],
        // 0
        vec![0],
        // 44031
        vec![255, 171],
        // 1
        vec![1],
        // 1
        vec![1],
        // 176
        vec![176],
        // 65535
        vec![255, 255],
        // 1
        vec![1],
        // 1
        vec![1],
        // 4294967295
        vec![255, 255, 255, 255],
    ];
    kani::concrete_playback_run(concrete_vals, c03_transmit_step_q);
}
