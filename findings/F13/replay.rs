// native replay for harness c20_kernel (property C20), crate ext-gsd, file harness.rs
// re-run: /verif/check.py --replay /verif/replays/C20/c20_kernel.rs
// failing check: "C20/range: a value is accepted exactly if it lies in the data type's range (signed types: their signed range)"
#[test]
fn kani_concrete_playback_c20_kernel_9089642882660516367() {
    let concrete_vals: Vec<Vec<u8>> = vec![
        // 4
        vec![4],
        // 49147
        vec![251, 191, 0, 0, 0, 0, 0, 0],
        // 191
        vec![191],
        // 255
        vec![255],
        // 255
        vec![255],
        // 0
        vec![0],
    ];
    kani::concrete_playback_run(concrete_vals, c20_kernel);
}

// failing check: "C20/bits-value: the parameter's bits hold the value, big endian two's complement"
#[test]
fn kani_concrete_playback_c20_kernel_16976051218371386519() {
    let concrete_vals: Vec<Vec<u8>> = vec![
        // 6
        vec![6],
        // 0
        vec![0],
        // 0
        vec![0, 0, 0, 0, 0, 0, 0, 0],
        // 1
        vec![1],
        // 0
        vec![0],
        // 0
        vec![0],
        // 0
        vec![0],
    ];
    kani::concrete_playback_run(concrete_vals, c20_kernel);
}
