// native replay for harness c17_iter_no_buffer (property C17), crate profirust, file dp_diagnostics.rs
// re-run: /verif/check.py --replay /verif/replays/C17/c17_iter_no_buffer.rs
// failing check: called `Option::unwrap()` on a `None` value
#[test]
fn kani_concrete_playback_c17_iter_no_buffer_17265512088101526857() {
    let concrete_vals: Vec<Vec<u8>> = vec![
    ];
    kani::concrete_playback_run(concrete_vals, c17_iter_no_buffer);
}
