// native replay for harness c10_decoder_accept_q (property C10), crate profirust, file fdl_telegram.rs
// re-run: /verif/check.py --replay /verif/replays/C10/c10_decoder_accept_q.rs
// failing check: "C10/accept-sd2: the repeated start delimiter is SD2"
#[test]
fn kani_concrete_playback_c10_decoder_accept_q_1556231301409220248() {
    let concrete_vals: Vec<Vec<u8>> = vec![
        // 104
        vec![104],
        // 5
        vec![5],
        // 5
        vec![5],
        // 99
        vec![99],
        // 246
        vec![246],
        // 119
        vec![119],
        // 99
        vec![99],
        // 174
        vec![174],
        // 48
        vec![48],
        // 174
        vec![174],
        // 22
        vec![22],
        // 170
        vec![170],
        // 59
        vec![59],
        // 37
        vec![37],
        // 189
        vec![189],
        // 47
        vec![47],
        // 41
        vec![41],
        // 56
        vec![56],
        // 47
        vec![47],
        // 47
        vec![47],
        // 6
        vec![6],
        // 86
        vec![86],
        // 6
        vec![6],
        // 86
        vec![86],
        // 19ul
        vec![19, 0, 0, 0, 0, 0, 0, 0],
    ];
    kani::concrete_playback_run(concrete_vals, c10_decoder_accept_q);
}
