// native replay for harness l2_check_token_pass_log (property C05), crate profirust, file fdl_active.rs
// re-run: /verif/check.py --replay /verif/replays/C05/l2_check_token_pass_log.rs
// failing check: called `Option::unwrap()` on a `None` value
#[test]
fn kani_concrete_playback_l2_check_token_pass_log_3986489576013305041() {
    let concrete_vals: Vec<Vec<u8>> = vec![
        // 0
        vec![0],
        // 1
        vec![1],
        // 63
        vec![63],
        // 1
        vec![1],
        // 1
        vec![1],
        // 2
        vec![2],
        // 0
        vec![0],
        // 0ul
        vec![0, 0, 0, 0, 0, 0, 0, 0],
        // 0ul
        vec![0, 0, 0, 0, 0, 0, 0, 0],
        // 1
        vec![1],
        // 0
        vec![0],
        // 1
        vec![1],
        // 274877923937
        vec![97, 66, 0, 0, 64, 0, 0, 0],
        // 1099511627391
        vec![127, 254, 255, 255, 255, 0, 0, 0],
        // 1099511627775
        vec![255, 255, 255, 255, 255, 0, 0, 0],
        // 1ul
        vec![1, 0, 0, 0, 0, 0, 0, 0],
        // 0
        vec![0],
        // 0ul
        vec![0, 0, 0, 0, 0, 0, 0, 0],
        // 1
        vec![1],
        // 3ul
        vec![3, 0, 0, 0, 0, 0, 0, 0],
        // 127
        vec![127],
        // 255
        vec![255],
        // 1
        vec![1],
        // 255
        vec![255],
        // 1
        vec![1],
        // 255
        vec![255],
        // 1
        vec![1],
        // 255
        vec![255],
        // 255
        vec![255],
        // 255
        vec![255],
        // 255
        vec![255],
        // 255
        vec![255],
        // 1
        vec![1],
        // 0ul
        vec![0, 0, 0, 0, 0, 0, 0, 0],
        // 0
        vec![0],
        // 2
        vec![2],
        // 0
        vec![0],
        // 0
        vec![0],
        // 1
        vec![1],
        // 255
        vec![255],
        // 0
        vec![0],
        // 255
        vec![255],
        // 255
        vec![255],
        // 255
        vec![255],
        // 0
        vec![0],
        // 0ul
        vec![0, 0, 0, 0, 0, 0, 0, 0],
        // 0
        vec![0],
        // 254
        vec![254],
        // 0
        vec![0],
        // 0
        vec![0],
        // 1
        vec![1],
        // 255
        vec![255],
        // 11
        vec![11],
        // 255
        vec![255],
        // 255
        vec![255],
        // 255
        vec![255],
        // 0
        vec![0],
        // 412316877409
        vec![97, 66, 0, 0, 96, 0, 0, 0],
    ];
    kani::concrete_playback_run(concrete_vals, l2_check_token_pass_log);
}
