// native replay for harness l2_claim_token (property C05), crate profirust, file fdl_active.rs
// re-run: /verif/check.py --replay /verif/replays/C05/l2_claim_token.rs
// failing check: "unexpected state: {:?}", self
#[test]
fn kani_concrete_playback_l2_claim_token_12235638003900589322() {
    let concrete_vals: Vec<Vec<u8>> = vec![
        // 0
        vec![0],
        // 3
        vec![3],
        // 87
        vec![87],
        // 3
        vec![3],
        // 1
        vec![1],
        // 95
        vec![95],
        // 125
        vec![125],
        // 3
        vec![3],
        // 0ul
        vec![0, 0, 0, 0, 0, 0, 0, 0],
        // 26ul
        vec![26, 0, 0, 0, 0, 0, 0, 0],
        // 0
        vec![0],
        // 1
        vec![1],
        // 1
        vec![1],
        // 549755813887
        vec![255, 255, 255, 255, 127, 0, 0, 0],
        // 9999874
        vec![2, 150, 152, 0, 0, 0, 0, 0],
        // 1099511627775
        vec![255, 255, 255, 255, 255, 0, 0, 0],
        // 2ul
        vec![2, 0, 0, 0, 0, 0, 0, 0],
        // 1
        vec![1],
        // 3ul
        vec![3, 0, 0, 0, 0, 0, 0, 0],
        // 2
        vec![2],
        // 3ul
        vec![3, 0, 0, 0, 0, 0, 0, 0],
        // 127
        vec![127],
        // 127
        vec![127],
        // 1
        vec![1],
        // 255
        vec![255],
        // 1
        vec![1],
        // 255
        vec![255],
        // 1
        vec![1],
        // 255
        vec![255],
        // 255
        vec![255],
        // 255
        vec![255],
        // 255
        vec![255],
        // 255
        vec![255],
        // 0
        vec![0],
        // 2ul
        vec![2, 0, 0, 0, 0, 0, 0, 0],
        // 1
        vec![1],
        // 1
        vec![1],
        // 0
        vec![0],
        // 0
        vec![0],
        // 0
        vec![0],
        // 3
        vec![3],
        // 0
        vec![0],
        // 255
        vec![255],
        // 255
        vec![255],
        // 255
        vec![255],
        // 2
        vec![2],
        // 0ul
        vec![0, 0, 0, 0, 0, 0, 0, 0],
        // 127
        vec![127],
        // 127
        vec![127],
        // 0
        vec![0],
        // 1
        vec![1],
        // 255
        vec![255],
        // 0
        vec![0],
        // 1
        vec![1],
        // 7
        vec![7],
        // 255
        vec![255],
        // 255
        vec![255],
        // 255
        vec![255],
        // 0
        vec![0],
        // 549755813952
        vec![64, 0, 0, 0, 128, 0, 0, 0],
    ];
    kani::concrete_playback_run(concrete_vals, l2_claim_token);
}
