// native replay for harness c17_iter_blocks_q (property C17), crate profirust, file dp_diagnostics.rs
// re-run: /verif/check.py --replay /verif/replays/C17/c17_iter_blocks_q.rs
// failing check: This is a placeholder message; Kani doesn't support message formatted at runtime
#[test]
fn kani_concrete_playback_c17_iter_blocks_q_7720928291659010576() {
    let concrete_vals: Vec<Vec<u8>> = vec![
        // 4
        vec![4],
        // 67
        vec![67],
        // 80
        vec![80],
        // 64
        vec![64],
        // 64
        vec![64],
        // 64
        vec![64],
        // 65
        vec![65],
        // 223
        vec![223],
        // 6ul
        vec![6, 0, 0, 0, 0, 0, 0, 0],
    ];
    kani::concrete_playback_run(concrete_vals, c17_iter_blocks_q);
}
