#!/usr/bin/env python3
"""Regenerate /verif/MANIFEST.json from registry_src.py (claimed properties) and NOT_APPLICABLE."""
import json
import os
import subprocess

import registry_src as R

HERE = os.path.dirname(os.path.abspath(__file__))
ALL = [json.loads(l)["id"] for l in open(os.path.join(HERE, "properties.jsonl"))]

hooks_commits = subprocess.check_output(
    ["git", "-C", "/repo", "log", "--format=%h %s", "--grep=^verif:"]).decode().strip().splitlines()

checks = []
for pid in ALL:
    p = R.PROPERTIES.get(pid)
    if not p or p.get("unclaimed"):
        continue
    checks.append({
        "property_id": pid,
        "quick_cmd": "python3 check.py %s --tier quick" % pid,
        "thorough_cmd": "python3 check.py %s --tier thorough" % pid,
        "evidence_file": "/verif/evidence/%s.json" % pid,
        "replay_cmd_template": "python3 check.py --replay {path}",
        "engine": "kani-cbmc",
        "level_claimed": {
            "category": "model_checking",
            "text": p["claim"],
            "design_ref": p.get("design_ref", "DESIGN.md section 4 " + pid),
        },
        "level_note": "Bounded model checking of the real code (Kani 0.68 -> CBMC 6.11 -> CaDiCaL), unwinding assertions on; nothing claimed outside the stated bounds. Assumptions: " + "; ".join(p.get("assumptions", [])) + ". Outside the claim: " + "; ".join(p.get("outside", [])),
        "technique": p.get("technique", "bounded model checking of the compiled Rust code with Kani/CBMC: symbolic inputs via kani::any(), property as assertions against an independent reference model, SAT-decided within stated unwind bounds, counterexamples replayed natively"),
    })

na = [{"property_id": pid, "reason": R.NOT_APPLICABLE.get(pid, "not built yet (DESIGN.md section 10)")}
      for pid in ALL if pid not in {c["property_id"] for c in checks}]

m = {
    "version": 1,
    "setup_cmd": "python3 registry_src.py && python3 check.py --list > /dev/null",
    "hooks": {
        "guard": "cfg(kani)",
        "enable": "cargo kani sets cfg(kani); harness sources are include!()-ed from $PROFIRUST_VERIF_HARNESS=/verif/harness (check.py sets it)",
        "baseline_off_cmd": "cd /repo && cargo test --workspace --no-fail-fast --offline",
        "source_commits": [c.split()[0] for c in hooks_commits],
        "add_only": True,
    },
    "engines": [{"name": "kani-cbmc", "path": "/verif/check.py",
                 "serves_properties": [c["property_id"] for c in checks],
                 "kind_free_text": "Kani 0.68.0 proof harnesses (in /verif/harness, compiled into the crate under cfg(kani)) decided by CBMC 6.11.0 + CaDiCaL; runner parses per-check results, requires cover witnesses, replays counterexamples natively with cargo kani playback"}],
    "checks": checks,
    "not_applicable": na,
    "notes": "See DESIGN.md. known_findings.json lists repaired (fix: commits) and known defects. exit 2 of a check = inconclusive (never a pass).",
}
json.dump(m, open(os.path.join(HERE, "MANIFEST.json"), "w"), indent=1)
print("MANIFEST.json:", len(checks), "claimed,", len(na), "not applicable")
