// harness file dp_diagnostics (see /verif/DESIGN.md)
