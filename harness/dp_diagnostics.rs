// C17 harnesses: extended diagnostics storage and block iteration (src/dp/diagnostics.rs).
//
// Included as `crate::dp::diagnostics::verif` under cfg(kani).

use super::*;
use crate::verif_support::*;

/// What the reference parser says about the block starting at `o` in `raw`.
#[derive(Clone, Copy, PartialEq, Eq)]
enum RefBlock {
    /// no more data
    End,
    /// malformed header / cut off: iteration must stop for good
    Malformed,
    /// identifier-related block of total length `len` (header included)
    Identifier(usize),
    /// channel-related block (3 bytes)
    Channel,
    /// device-related block of total length `len` (header included)
    Device(usize),
}

/// Reference block parser, written from the DP-V0 diagnostics layout: the two top bits of the
/// header select the block type (00 device, 01 identifier, 10 channel, 11 reserved); device and
/// identifier headers carry the block length *including the header* in the low six bits, so a
/// length of zero cannot describe a block; a channel block is exactly three bytes.
fn ref_block(raw: &[u8], o: usize) -> RefBlock {
    if o >= raw.len() {
        return RefBlock::End;
    }
    let h = raw[o];
    let remaining = raw.len() - o;
    match h >> 6 {
        0b00 | 0b01 => {
            let len = usize::from(h & 0x3f);
            if len == 0 || len > remaining {
                RefBlock::Malformed
            } else if h >> 6 == 0 {
                RefBlock::Device(len)
            } else {
                RefBlock::Identifier(len)
            }
        }
        0b10 => {
            if remaining < 3 {
                RefBlock::Malformed
            } else {
                RefBlock::Channel
            }
        }
        _ => RefBlock::Malformed,
    }
}

fn ref_channel_error(b: u8) -> ChannelError {
    match b & 0x1f {
        1 => ChannelError::ShortCircuit,
        2 => ChannelError::UnderVoltage,
        3 => ChannelError::OverVoltage,
        4 => ChannelError::OverLoad,
        5 => ChannelError::OverTemperature,
        6 => ChannelError::LineBreak,
        7 => ChannelError::UpperLimitOvershoot,
        8 => ChannelError::LowerLimitUndershoot,
        9 => ChannelError::Error,
        v if v >= 16 => ChannelError::Vendor(v),
        r => ChannelError::Reserved(r),
    }
}

fn ref_channel_dtype(b: u8) -> ChannelDataType {
    match b >> 5 {
        1 => ChannelDataType::Bit,
        2 => ChannelDataType::Bit2,
        3 => ChannelDataType::Bit4,
        4 => ChannelDataType::Byte,
        5 => ChannelDataType::Word,
        6 => ChannelDataType::DWord,
        _ => ChannelDataType::Invalid,
    }
}

/// Iterate to exhaustion over symbolic stored bytes; compare every yielded block with the
/// reference parser.  `N` = maximum stored length.
fn iter_blocks<const N: usize>(log_on: bool) {
    if log_on {
        log::set_max_level(log::LevelFilter::Trace);
    }
    let mut storage: [u8; N] = kani::any();
    let shadow = storage;
    let length: usize = kani::any();
    kani::assume(length <= N);
    // a diagnostics buffer of at least one byte exists (the no-buffer case: c17_iter_no_buffer)
    let ext = ExtendedDiagnostics {
        buffer: managed::ManagedSlice::Borrowed(&mut storage[..]),
        length,
    };
    let raw = &shadow[..length];
    let base = ext.raw_diag_buffer().unwrap().as_ptr() as usize;

    let mut it = ext.iter_diag_blocks();
    let mut o = 0usize; // reference cursor
    let mut stopped = false;
    let mut calls = 0usize;
    let mut yielded = 0usize;
    while calls < N + 2 {
        calls += 1;
        let got = it.next();
        let want = if stopped { RefBlock::End } else { ref_block(raw, o) };
        match want {
            RefBlock::End | RefBlock::Malformed => {
                vassert!(got.is_none(), "C17/iter-stop: nothing is yielded at the end of the data or after the first malformed block");
                stopped = true;
                kani::cover!(want == RefBlock::Malformed && yielded >= 1, "cover: malformed block after a good one");
            }
            RefBlock::Channel => {
                match got {
                    Some(ExtDiagBlock::Channel(c)) => {
                        vassert!(c.module == raw[o] & 0x3f, "C17/iter-channel: module number");
                        vassert!(c.channel == raw[o + 1] & 0x3f, "C17/iter-channel: channel number");
                        vassert!(c.input == (raw[o + 1] & 0x40 != 0) && c.output == (raw[o + 1] & 0x80 != 0), "C17/iter-channel: input/output flags");
                        vassert!(c.dtype == ref_channel_dtype(raw[o + 2]), "C17/iter-channel: channel data type");
                        vassert!(c.error == ref_channel_error(raw[o + 2]), "C17/iter-channel: channel error");
                        kani::cover!(true, "cover: channel block decoded");
                    }
                    _ => vassert!(false, "C17/iter-type: a channel-related block is yielded as such"),
                }
                o += 3;
                yielded += 1;
            }
            RefBlock::Device(len) => {
                match got {
                    Some(ExtDiagBlock::Device(d)) => {
                        vassert!(d.len() == len - 1, "C17/iter-bounds: device block has the announced length");
                        vassert!(d.as_ptr() as usize == base + o + 1, "C17/iter-bounds: device block starts right after its header, consecutive to the previous block");
                        kani::cover!(len == 1, "cover: header-only device block");
                        kani::cover!(len > 2 && o > 0, "cover: device block with data after another block");
                    }
                    _ => vassert!(false, "C17/iter-type: a device-related block is yielded as such"),
                }
                o += len;
                yielded += 1;
            }
            RefBlock::Identifier(len) => {
                match got {
                    Some(ExtDiagBlock::Identifier(bits)) => {
                        vassert!(bits.len() == 8 * (len - 1), "C17/iter-bounds: identifier block has the announced length");
                        if len > 1 {
                            let i: usize = kani::any();
                            kani::assume(i < 8 * (len - 1));
                            let want_bit = raw[o + 1 + i / 8] >> (i % 8) & 1 != 0;
                            vassert!(bits[i] == want_bit, "C17/iter-identifier: bit i of the block is module i (LSB first)");
                        }
                        kani::cover!(len > 1, "cover: identifier block with data");
                    }
                    _ => vassert!(false, "C17/iter-type: an identifier-related block is yielded as such"),
                }
                o += len;
                yielded += 1;
            }
        }
    }
    vassert!(stopped, "C17/iter-terminates: iteration ends after at most length+1 calls");
    kani::cover!(yielded >= 3, "cover: three blocks in one buffer");
}

#[kani::proof]
#[kani::unwind(12)]
fn c17_iter_blocks_q() {
    iter_blocks::<8>(false);
}

#[kani::proof]
#[kani::unwind(28)]
fn c17_iter_blocks_t() {
    iter_blocks::<24>(false);
}

/// Same with logging enabled at every level (log arguments are evaluated).
#[kani::proof]
#[kani::unwind(12)]
#[kani::stub(log::__private_api::loc, crate::verif_support::log_loc_stub)]
fn c17_iter_blocks_logging_q() {
    iter_blocks::<8>(true);
}

/// Iterating a peripheral's extended diagnostics when no diagnostics buffer was attached.
#[kani::proof]
#[kani::unwind(4)]
fn c17_iter_no_buffer() {
    let ext = ExtendedDiagnostics::default();
    vassert!(!ext.is_available() && ext.raw_diag_buffer().is_none(), "C17/no-buffer: no buffer means no raw data");
    let mut it = ext.iter_diag_blocks();
    vassert!(it.next().is_none(), "C17/no-buffer: iterating without a diagnostics buffer yields nothing");
    vassert!(it.next().is_none(), "C17/no-buffer: iterating without a diagnostics buffer yields nothing");
    kani::cover!(true, "cover: iteration without buffer returns");
}

/// `fill`: stored iff a buffer exists and the data fits; otherwise nothing changes.
fn fill_stores<const N: usize>() {
    let mut storage: [u8; N] = kani::any();
    let before = storage;
    let cap: usize = kani::any();
    kani::assume(cap <= N);
    let old_len: usize = kani::any();
    kani::assume(old_len <= cap);
    let data: [u8; N] = kani::any();
    let dlen: usize = kani::any();
    kani::assume(dlen <= N);

    let mut ext = ExtendedDiagnostics {
        buffer: managed::ManagedSlice::Borrowed(&mut storage[..cap]),
        length: old_len,
    };
    let stored = ext.fill(&data[..dlen]);
    vassert!(stored == (cap > 0 && dlen <= cap), "C17/store: extended diagnostics are stored iff a buffer exists and they fit");
    if stored {
        let raw = ext.raw_diag_buffer().unwrap();
        vassert!(raw.len() == dlen, "C17/store: stored length equals the reply's extended part");
        let mut i = 0;
        while i < dlen {
            vassert!(raw[i] == data[i], "C17/store: stored bytes equal the reply's extended part");
            i += 1;
        }
        kani::cover!(dlen == cap && cap == N, "cover: exactly fitting diagnostics stored");
    } else {
        vassert!(ext.length == old_len, "C17/store: a rejected fill leaves the stored length unchanged");
        let mut i = 0;
        while i < cap {
            vassert!(ext.buffer[i] == before[i], "C17/store: a rejected fill leaves the stored bytes unchanged");
            i += 1;
        }
        kani::cover!(cap > 0 && dlen == cap + 1, "cover: one byte too many rejected");
        kani::cover!(cap == 0, "cover: no buffer");
    }
}

#[kani::proof]
#[kani::unwind(10)]
fn c17_fill_q() {
    fill_stores::<8>();
}

#[kani::proof]
#[kani::unwind(66)]
fn c17_fill_t() {
    fill_stores::<64>();
}

/// Construct extended diagnostics storage with a symbolic fill level (for other harness files).
pub(crate) fn mk_ext_diag<'a>(buf: &'a mut [u8], length: usize) -> ExtendedDiagnostics<'a> {
    ExtendedDiagnostics {
        buffer: managed::ManagedSlice::Borrowed(buf),
        length,
    }
}

pub(crate) fn ext_diag_len(e: &ExtendedDiagnostics) -> usize {
    e.length
}
