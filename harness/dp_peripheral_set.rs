// Harness helpers for src/dp/peripheral_set.rs (crate::dp::peripheral_set::verif under cfg(kani)).

use super::*;
#[allow(unused_imports)]
use crate::verif_support::*;

/// A storage slot with the given content (sparse storages cannot be built through `add()`).
pub(crate) fn mk_slot<'a>(p: Option<Peripheral<'a>>) -> PeripheralStorage<'a> {
    PeripheralStorage { inner: p }
}

/// Look at slot `i` without going through the cycle index API.
pub(crate) fn peek<'s, 'a>(set: &'s PeripheralSet<'a>, i: usize) -> Option<&'s Peripheral<'a>> {
    set.peripherals[i].inner.as_ref()
}

pub(crate) fn slots(set: &PeripheralSet) -> usize {
    set.peripherals.len()
}
