// C03 / C04 / C08 / C17 harnesses: one DP peripheral state machine step (src/dp/peripheral.rs).
//
// Included as `crate::dp::peripheral::verif` under cfg(kani).
//
// One-step inductive shape: the pre-state is symbolic under the representation invariant
// `inv_dp`, one real `transmit_telegram` / `receive_reply` runs with symbolic inputs, and the
// post-state is compared with a reference transition function written from the DP-V0 slave
// bring-up sequence (Slave_Diag -> Set_Prm -> Chk_Cfg -> Slave_Diag -> Data_Exchange).

use super::*;
use crate::fdl::{
    DataTelegram, DataTelegramHeader, FdlActiveStation, FrameCountBit, FunctionCode, HighPrioOnly,
    Parameters, RequestType, ResponseState, ResponseStatus, ShortConfirmation, Telegram, TelegramTx,
};
use crate::verif_support::*;

pub(crate) fn any_pstate() -> PeripheralState {
    match kani::any::<u8>() {
        0 => PeripheralState::Offline,
        1 => PeripheralState::WaitForParam,
        2 => PeripheralState::WaitForConfig,
        3 => PeripheralState::ValidateConfig,
        4 => PeripheralState::PreDataExchange,
        _ => PeripheralState::DataExchange,
    }
}

pub(crate) fn any_live_fcb() -> FrameCountBit {
    match kani::any::<u8>() {
        0 => FrameCountBit::First,
        1 => FrameCountBit::High,
        _ => FrameCountBit::Low,
    }
}

pub(crate) fn cycled(f: FrameCountBit) -> FrameCountBit {
    // reference: after the first request the bit alternates, starting with 0
    match f {
        FrameCountBit::First => FrameCountBit::Low,
        FrameCountBit::High => FrameCountBit::Low,
        FrameCountBit::Low => FrameCountBit::High,
        FrameCountBit::Inactive => FrameCountBit::Inactive,
    }
}

pub(crate) fn in_dx(s: PeripheralState) -> bool {
    matches!(s, PeripheralState::PreDataExchange | PeripheralState::DataExchange)
}

pub(crate) use crate::verif_support::any_fdl;

/// Symbolic peripheral over caller-provided buffers.  Everything the state machine reads is
/// symbolic; `inv_dp` constrains it to the representation invariant.
pub(crate) fn any_peripheral<'a>(
    pi_i: &'a mut [u8],
    pi_q: &'a mut [u8],
    diag_buf: &'a mut [u8],
    user_parameters: Option<&'a [u8]>,
    config: Option<&'a [u8]>,
) -> Peripheral<'a> {
    let address: u8 = kani::any();
    let ext_len: usize = kani::any();
    kani::assume(ext_len <= diag_buf.len());
    let diag = if kani::any() {
        Some(DiagnosticsInfo {
            flags: DiagnosticFlags::from_bits_retain(kani::any()),
            ident_number: kani::any(),
            master_address: if kani::any() { Some(kani::any()) } else { None },
        })
    } else {
        None
    };
    Peripheral {
        address,
        state: any_pstate(),
        retry_count: kani::any(),
        fcb: any_live_fcb(),
        pi_i: managed::ManagedSlice::Borrowed(pi_i),
        pi_q: managed::ManagedSlice::Borrowed(pi_q),
        diag,
        ext_diag: crate::dp::diagnostics::verif::mk_ext_diag(diag_buf, ext_len),
        diag_needed: kani::any(),
        diag_requested: kani::any(),
        options: PeripheralOptions {
            ident_number: kani::any(),
            sync_mode: kani::any(),
            freeze_mode: kani::any(),
            groups: kani::any(),
            max_tsdr: kani::any(),
            fail_safe: kani::any(),
            user_parameters,
            config,
        },
    }
}

/// Peripheral for the DP master harnesses: only what the master's slot logic depends on is
/// symbolic (address, bring-up state, retry counter, frame count bit, diagnostics flags, whether
/// parameters/configuration are present); the rest is fixed.
pub(crate) fn light_peripheral<'a>(
    pi_i: &'a mut [u8],
    pi_q: &'a mut [u8],
    user_parameters: Option<&'a [u8]>,
    config: Option<&'a [u8]>,
) -> Peripheral<'a> {
    Peripheral {
        address: kani::any(),
        state: any_pstate(),
        retry_count: kani::any(),
        fcb: any_live_fcb(),
        pi_i: managed::ManagedSlice::Borrowed(pi_i),
        pi_q: managed::ManagedSlice::Borrowed(pi_q),
        diag: None,
        ext_diag: Default::default(),
        diag_needed: kani::any(),
        diag_requested: kani::any(),
        options: PeripheralOptions { user_parameters, config, ..Default::default() },
    }
}

/// Representation invariant of a peripheral (inductive: holds for `Peripheral::new`, preserved by
/// every `transmit_telegram` / `receive_reply` / `request_diagnostics`; proved by the step
/// harnesses below, which assume it before and assert it after).
pub(crate) fn inv_dp(p: &Peripheral, fdl: &FdlActiveStation) -> bool {
    p.address <= 125
        && p.retry_count <= fdl.parameters().max_retry_limit + 1
        && (p.state != PeripheralState::Offline || p.retry_count <= 1)
        && p.fcb != FrameCountBit::Inactive
}

#[derive(Clone, Copy, PartialEq, Eq)]
pub(crate) enum ReqKind {
    None,
    Diag,
    SetPrm,
    ChkCfg,
    DataExchange,
}

/// Which request the reference DP master sends next for a peripheral in this state.
fn ref_next_request(state: PeripheralState, retry_count: u8, limit: u8, diag_needed: bool, has_prm: bool, has_cfg: bool) -> ReqKind {
    if retry_count > limit {
        return ReqKind::None; // declared offline in this call
    }
    match state {
        PeripheralState::Offline => {
            if retry_count == 0 {
                ReqKind::Diag
            } else {
                ReqKind::None
            }
        }
        PeripheralState::WaitForParam => {
            if has_prm {
                ReqKind::SetPrm
            } else {
                ReqKind::None
            }
        }
        PeripheralState::WaitForConfig => {
            if has_cfg {
                ReqKind::ChkCfg
            } else {
                ReqKind::None
            }
        }
        PeripheralState::ValidateConfig => ReqKind::Diag,
        PeripheralState::PreDataExchange | PeripheralState::DataExchange => {
            if diag_needed {
                ReqKind::Diag
            } else {
                ReqKind::DataExchange
            }
        }
    }
}

// ==========================================================================================
// transmit step: C03 (PDU contents, DX only in S_dx), C04 (DX payload == pi_q), C08 (retry limit,
// Offline event, FCB on the wire)
// ==========================================================================================

fn transmit_step<const U: usize, const C: usize, const Q: usize, const B: usize>() {
    let mut pi_i = [0u8; 2];
    let mut pi_q_store: [u8; Q] = kani::any();
    let qlen: usize = kani::any();
    kani::assume(qlen <= Q);
    let user_store: [u8; U] = kani::any();
    let ulen: usize = kani::any();
    kani::assume(ulen <= U);
    let cfg_store: [u8; C] = kani::any();
    let clen: usize = kani::any();
    kani::assume(clen <= C);
    let has_prm: bool = kani::any();
    let has_cfg: bool = kani::any();
    let mut diag_buf = [0u8; 4];

    let fdl = any_fdl();
    let op = crate::dp::master::verif::any_operating();
    let dp = crate::dp::master::verif::mk_dp_state(op);
    let pi_q_copy = pi_q_store;
    let mut p = any_peripheral(
        &mut pi_i[..],
        &mut pi_q_store[..qlen],
        &mut diag_buf[..],
        if has_prm { Some(&user_store[..ulen]) } else { None },
        if has_cfg { Some(&cfg_store[..clen]) } else { None },
    );
    kani::assume(inv_dp(&p, &fdl));

    let pre_state = p.state;
    let pre_rc = p.retry_count;
    let pre_fcb = p.fcb;
    let pre_dn = p.diag_needed;
    // a new request (retry counter 0) polls diagnostics iff the user or the peripheral asked
    // for it; a retransmission repeats the kind of the request it retries
    let diag_round = if p.retry_count == 0 { p.diag_needed } else { p.diag_requested };
    let addr = p.address;
    let limit = fdl.parameters().max_retry_limit;
    let hp = if kani::any() { HighPrioOnly::Yes } else { HighPrioOnly::No };
    let now = crate::time::Instant::from_micros(kani::any::<u32>());

    let mut buf = [0xAAu8; B];
    let (sent, event) = match p.transmit_telegram(now, &dp, &fdl, TelegramTx::new(&mut buf), hp) {
        Ok(r) => (Some(r), None),
        Err((_tx, ev)) => (None, ev),
    };

    let want = ref_next_request(pre_state, pre_rc, limit, diag_round, has_prm, has_cfg);

    // ---- C08: retry limit and Offline event -------------------------------------------------
    if pre_rc > limit {
        vassert!(sent.is_none(), "C08/retry-limit: nothing is transmitted once 1+max_retry_limit transmissions went unanswered");
        vassert!(event == Some(PeripheralEvent::Offline), "C08/offline-event: exceeding the retry limit raises the Offline event");
        vassert!(p.state == PeripheralState::Offline && !p.is_live(), "C08/offline-event: the peripheral is offline afterwards");
        vassert!(pre_state != PeripheralState::Offline, "C14/lifecycle: Offline is raised only while the peripheral was live");
        vassert!(p.retry_count == 0, "C08/offline-probe: the retry counter restarts for the offline probe");
        vassert!(p.fcb == FrameCountBit::First, "C08/first-after-offline: the frame count bit is re-initialised (FCV=0/FCB=1) when the peripheral is declared offline");
        kani::cover!(pre_state == PeripheralState::DataExchange, "cover: running peripheral declared offline");
    } else {
        vassert!(event.is_none(), "C08/offline-event: no event without exceeding the retry limit");
        vassert!(p.state == pre_state, "C03/tx-no-transition: transmitting does not change the bring-up state");
    }
    vassert!(sent.is_some() == (want != ReqKind::None), "C03/request-kind: a request is sent exactly when the bring-up sequence has one to send");
    vassert!(p.fcb == pre_fcb || (event.is_some() && p.fcb == FrameCountBit::First), "C08/fcb-tx: transmitting never toggles the frame count bit");
    vassert!(p.diag_needed == pre_dn, "C08/tx-frame: a transmission does not change the pending-diagnostics flag");

    if let Some(r) = sent {
        vassert!(pre_rc <= limit, "C08/retry-limit: a request goes out only within 1+max_retry_limit transmissions");
        vassert!(p.retry_count == pre_rc + 1, "C08/retry-count: every transmission is counted");
        if pre_state == PeripheralState::Offline {
            vassert!(want == ReqKind::Diag, "C08/offline-probe: an offline peripheral is only probed with diagnostics requests");
        }

        // reference header and PDU
        let (dsap, ssap, req, plen) = match want {
            ReqKind::Diag => (Some(60u8), Some(62u8), RequestType::SrdLow, 0usize),
            ReqKind::SetPrm => (Some(61), Some(62), RequestType::SrdLow, 7 + ulen),
            ReqKind::ChkCfg => (Some(62), Some(62), RequestType::SrdLow, clen),
            ReqKind::DataExchange => (None, None, RequestType::SrdHigh, qlen),
            ReqKind::None => unreachable!(),
        };
        let h = DataTelegramHeader {
            da: addr,
            sa: fdl.parameters().address,
            dsap,
            ssap,
            fc: FunctionCode::Request { fcb: pre_fcb, req },
        };
        let opts_ident = p.options.ident_number;
        let (sync, freeze, groups) = (p.options.sync_mode, p.options.freeze_mode, p.options.groups);
        let wd = fdl.parameters().watchdog_factors;
        let min_tsdr = fdl.parameters().min_tsdr_bits;
        let pdu = |i: usize| -> u8 {
            match want {
                ReqKind::SetPrm => match i {
                    0 => 0x80 | if sync { 0x20 } else { 0 } | if freeze { 0x10 } else { 0 } | if wd.is_some() { 0x08 } else { 0 },
                    1 => wd.map(|w| w.0).unwrap_or(0),
                    2 => wd.map(|w| w.1).unwrap_or(0),
                    3 => min_tsdr,
                    4 => (opts_ident >> 8) as u8,
                    5 => (opts_ident & 0xff) as u8,
                    6 => groups,
                    _ => user_store[i - 7],
                },
                ReqKind::ChkCfg => cfg_store[i],
                ReqKind::DataExchange => {
                    if op == crate::dp::OperatingState::Operate {
                        pi_q_copy[i]
                    } else {
                        0
                    }
                }
                _ => 0,
            }
        };
        let mut expect = [0u8; B];
        let elen = ref_encode(&h, plen, pdu, &mut expect);
        vassert!(r.bytes_sent() == elen, "C03/wire: frame length equals the reference frame");
        vassert!(r.expects_reply() == Some(addr), "C03/wire: the request expects a reply from the peripheral");
        let mut i = 0;
        while i < elen {
            if want == ReqKind::DataExchange {
                vassert!(buf[i] == expect[i], "C04/dx-request: a Data_Exchange request is the reference frame carrying exactly the current output image (all zeros in Clear), on first transmission and on every retransmission");
            } else {
                vassert!(buf[i] == expect[i], "C03/wire: request bytes equal the reference frame (SAPs, function code, FCB/FCV, PDU)");
            }
            i += 1;
        }
        if want == ReqKind::DataExchange {
            vassert!(in_dx(pre_state), "C03/dx-only-after-bringup: a Data_Exchange request is sent only in the data exchange states");
            kani::cover!(qlen == Q && op == crate::dp::OperatingState::Operate, "cover: full-size output image sent");
            kani::cover!(op == crate::dp::OperatingState::Clear && qlen > 0, "cover: Clear state sends zeros");
        }
        kani::cover!(want == ReqKind::SetPrm && ulen == U && wd.is_some(), "cover: Set_Prm with watchdog and full user data");
        kani::cover!(want == ReqKind::ChkCfg && clen == C, "cover: Chk_Cfg with full config");
        kani::cover!(want == ReqKind::Diag && pre_state == PeripheralState::Offline, "cover: offline probe");
    } else if event.is_none() {
        vassert!(p.retry_count == 0, "C08/retry-count: declining resets the retry counter");
    }
    // process images untouched
    let mut i = 0;
    while i < qlen {
        vassert!(p.pi_q()[i] == pi_q_copy[i], "C04/pi-q-readonly: transmitting never writes the output image");
        i += 1;
    }
    vassert!(inv_dp(&p, &fdl), "C03/inv: representation invariant preserved by transmit_telegram");
}

#[kani::proof]
#[kani::unwind(24)]
fn c03_transmit_step_q() {
    // user prm <= 4, config <= 4, outputs <= 4; largest frame 7+4+2+9 = 22
    transmit_step::<4, 4, 4, 22>();
}

#[kani::proof]
#[kani::unwind(52)]
fn c03_transmit_step_t() {
    // user prm <= 32, config <= 32, outputs <= 32; largest frame 7+32+2+9 = 50
    transmit_step::<32, 32, 32, 50>();
}

// ==========================================================================================
// receive step: C03 (transition relation), C04 (input image), C08 (FCB toggles on accepted
// replies), C14 (life-cycle of events), C17 (diagnostics decoding)
// ==========================================================================================

fn receive_step<const I: usize, const D: usize, const P: usize>() {
    let mut pi_i_store: [u8; I] = kani::any();
    let ilen: usize = kani::any();
    kani::assume(ilen <= I);
    let mut pi_q_store = [0x5Au8; 2];
    let mut diag_store: [u8; D] = kani::any();
    let dcap: usize = kani::any();
    kani::assume(dcap <= D);
    let pi_i_before = pi_i_store;

    let fdl = any_fdl();
    let dp = crate::dp::master::verif::mk_dp_state(crate::dp::master::verif::any_operating());
    let mut p = any_peripheral(&mut pi_i_store[..ilen], &mut pi_q_store[..], &mut diag_store[..dcap], None, None);
    kani::assume(inv_dp(&p, &fdl));

    let pre_state = p.state;
    let pre_rc = p.retry_count;
    let pre_fcb = p.fcb;
    let pre_dn = p.diag_requested; // is the outstanding request a diagnostics request?
    let pre_needed = p.diag_needed;
    let pre_ext_len = crate::dp::diagnostics::verif::ext_diag_len(&p.ext_diag);
    let pre_diag = p.diag.clone();
    let addr = p.address;

    // The reply: anything the FDL layer can deliver (C15 admission): SC, or a data telegram with
    // a response function code from the peripheral's address to this station.
    let pdu_store: [u8; P] = kani::any();
    let plen: usize = kani::any();
    kani::assume(plen <= P);
    let is_sc: bool = kani::any();
    let dsap = any_sap();
    let ssap = any_sap();
    let rstate = any_response_state();
    let rstatus = any_response_status();
    let telegram = if is_sc {
        Telegram::ShortConfirmation(ShortConfirmation)
    } else {
        Telegram::Data(DataTelegram {
            h: DataTelegramHeader {
                da: fdl.parameters().address,
                sa: addr,
                dsap,
                ssap,
                fc: FunctionCode::Response { state: rstate, status: rstatus },
            },
            pdu: &pdu_store[..plen],
        })
    };
    let now = crate::time::Instant::from_micros(kani::any::<u32>());

    let event = p.receive_reply(now, &dp, &fdl, telegram);

    // ---- reference classification of the reply ----------------------------------------------
    let diag_shaped = !is_sc && dsap == Some(62) && ssap == Some(60) && plen >= 6;
    // A diagnostics-shaped reply carrying a NEGATIVE response status (UE/RR/RS/NR) is something no
    // conforming slave sends and the properties say nothing about: the master may evaluate it like
    // any diagnostics reply (what the code does) or ignore it like a malformed one.  Which of the
    // two happened is read off the frame count bit (an accepted reply always moves it, an ignored
    // diagnostics reply never does); every obligation below is then checked for that reading.
    let nak = matches!(rstatus, ResponseStatus::UserError | ResponseStatus::NoResources | ResponseStatus::SapNotEnabled | ResponseStatus::NoDataReady);
    let diag_ok = diag_shaped && (!nak || p.fcb != pre_fcb);
    let flags = u16::from(pdu_store[0]) | (u16::from(pdu_store[1]) << 8);
    const NOT_READY: u16 = 0x0002;
    const CFG_FAULT: u16 = 0x0004;
    const EXT_DIAG: u16 = 0x0008;
    const PRM_FAULT: u16 = 0x0040;
    const PRM_REQ: u16 = 0x0100;
    const PERMANENT: u16 = 0x0400;
    let diag_expected = pre_state == PeripheralState::Offline
        || pre_state == PeripheralState::ValidateConfig
        || (in_dx(pre_state) && pre_dn);

    // ---- C03: transition relation -------------------------------------------------------------
    let want_state = match pre_state {
        PeripheralState::Offline => {
            if diag_ok { PeripheralState::WaitForParam } else { PeripheralState::Offline }
        }
        PeripheralState::WaitForParam => {
            if is_sc { PeripheralState::WaitForConfig } else { PeripheralState::WaitForParam }
        }
        PeripheralState::WaitForConfig => {
            if is_sc { PeripheralState::ValidateConfig } else { PeripheralState::WaitForConfig }
        }
        PeripheralState::ValidateConfig => {
            if !diag_ok {
                PeripheralState::ValidateConfig
            } else if flags & PRM_FAULT != 0 || flags & CFG_FAULT != 0 {
                PeripheralState::Offline
            } else if flags & PRM_REQ != 0 {
                PeripheralState::WaitForParam
            } else if flags & NOT_READY == 0 {
                PeripheralState::PreDataExchange
            } else {
                PeripheralState::ValidateConfig
            }
        }
        s => s, // data exchange states: checked below
    };
    if !in_dx(pre_state) {
        vassert!(p.state == want_state, "C03/transition: bring-up state follows the DP slave bring-up sequence");
        if in_dx(p.state) {
            vassert!(
                pre_state == PeripheralState::ValidateConfig && diag_ok && flags & (PRM_FAULT | CFG_FAULT | PRM_REQ | NOT_READY) == 0,
                "C03/dx-only-after-bringup: data exchange is entered only from config validation by a ready diagnostics reply"
            );
            kani::cover!(true, "cover: peripheral becomes ready for data exchange");
        }
        let want_event = match (pre_state, p.state) {
            (PeripheralState::Offline, PeripheralState::WaitForParam) => Some(PeripheralEvent::Online),
            (PeripheralState::ValidateConfig, PeripheralState::PreDataExchange) => Some(PeripheralEvent::Configured),
            (PeripheralState::ValidateConfig, PeripheralState::Offline) => {
                if flags & PRM_FAULT != 0 { Some(PeripheralEvent::ParameterError) } else { Some(PeripheralEvent::ConfigError) }
            }
            _ => None,
        };
        vassert!(event == want_event, "C14/lifecycle: Online on leaving Offline, Configured on entering data exchange, Parameter/ConfigError on a fault report, nothing else");
    } else if pre_dn {
        vassert!(p.state == pre_state, "C03/transition: a diagnostics round in data exchange does not change the state");
        vassert!(event == if diag_ok { Some(PeripheralEvent::Diagnostics) } else { None }, "C14/lifecycle: Diagnostics event exactly for a well-formed diagnostics reply");
        vassert!(p.diag_needed == (pre_needed && !diag_ok), "C03/transition: the diagnostics request is cleared exactly by a well-formed diagnostics reply");
    }

    // ---- C04: input process image -------------------------------------------------------------
    let mut changed = false;
    let mut equals_pdu = ilen == plen;
    let mut i = 0;
    while i < ilen {
        if p.pi_i()[i] != pi_i_before[i] {
            changed = true;
        }
        if i < plen && p.pi_i()[i] != pdu_store[i] {
            equals_pdu = false;
        }
        i += 1;
    }
    vassert!(p.pi_i().len() == ilen, "C04/pi-i: the input image keeps its configured length");
    let status_bad = matches!(rstatus, ResponseStatus::UserError | ResponseStatus::NoResources | ResponseStatus::SapNotEnabled | ResponseStatus::NoDataReady);
    let dx_round = in_dx(pre_state) && !pre_dn;
    if changed {
        vassert!(dx_round, "C04/pi-i-necessary: the input image changes only in a data exchange round (no diagnostics outstanding)");
        vassert!(!is_sc && plen == ilen && !status_bad, "C04/pi-i-necessary: only a data reply of exactly the configured length without error status changes the input image");
        vassert!(equals_pdu, "C04/pi-i-equals: after an update the input image equals the reply payload byte for byte");
    }
    if dx_round && !is_sc && plen == ilen && matches!(rstatus, ResponseStatus::DataLow | ResponseStatus::DataHigh) {
        vassert!(equals_pdu, "C04/pi-i-sufficient: a well-formed Data_Exchange reply of the configured length updates the input image");
        vassert!(event == Some(PeripheralEvent::DataExchanged), "C04/event: DataExchanged is reported for an update");
        vassert!(p.state == PeripheralState::DataExchange && p.is_running(), "C14/lifecycle: DataExchanged implies the peripheral is running");
        kani::cover!(ilen == I, "cover: full-size input image updated");
    }
    if event == Some(PeripheralEvent::DataExchanged) {
        vassert!(dx_round, "C04/event: DataExchanged only in a data exchange round");
        vassert!(
            (!is_sc && plen == ilen && !status_bad && equals_pdu) || (is_sc && ilen == 0),
            "C04/event: DataExchanged iff the input image was updated (or SC for an input-less peripheral)"
        );
        vassert!(p.is_running(), "C14/lifecycle: DataExchanged implies is_running()");
    }
    if dx_round && is_sc && ilen == 0 {
        vassert!(event == Some(PeripheralEvent::DataExchanged), "C04/event: SC to an input-less peripheral counts as data exchange");
    }
    if dx_round {
        let want = if !is_sc && rstatus == ResponseStatus::SapNotEnabled {
            PeripheralState::ValidateConfig
        } else if event == Some(PeripheralEvent::DataExchanged) {
            PeripheralState::DataExchange
        } else {
            pre_state
        };
        vassert!(p.state == want, "C03/transition: data exchange continues; 'SAP not enabled' sends the peripheral back to config validation");
    }
    vassert!(p.pi_q()[0] == 0x5A && p.pi_q()[1] == 0x5A, "C04/pi-q-readonly: a reply never writes the output image");

    // ---- C17: diagnostics decoding ------------------------------------------------------------
    let post_ext_len = crate::dp::diagnostics::verif::ext_diag_len(&p.ext_diag);
    if diag_expected && diag_ok {
        let d = p.last_diagnostics().unwrap();
        vassert!(d.flags.bits() == flags & !PERMANENT, "C17/decode-flags: reported flags equal the first two reply bytes (little endian), without the always-one permanent bit");
        vassert!(d.ident_number == (u16::from(pdu_store[4]) << 8 | u16::from(pdu_store[5])), "C17/decode-ident: ident number equals reply bytes 4..6 (big endian)");
        vassert!(d.master_address == if pdu_store[3] == 255 { None } else { Some(pdu_store[3]) }, "C17/decode-master: master address equals reply byte 3 (255 = none)");
        let fits = dcap > 0 && plen - 6 <= dcap;
        if flags & EXT_DIAG != 0 && fits {
            vassert!(post_ext_len == plen - 6, "C17/store: extended diagnostics stored when they fit");
            let raw = d.extended_diagnostics.raw_diag_buffer().unwrap();
            let mut i = 0;
            while i < plen - 6 {
                vassert!(raw[i] == pdu_store[6 + i], "C17/store: stored extended diagnostics equal the reply's tail");
                i += 1;
            }
            kani::cover!(dcap > 0 && plen - 6 == dcap, "cover: exactly fitting extended diagnostics");
        } else {
            vassert!(post_ext_len == pre_ext_len, "C17/store: extended diagnostics that are absent or do not fit leave the stored ones unchanged");
            kani::cover!(flags & EXT_DIAG != 0 && dcap > 0 && plen - 6 > dcap, "cover: oversize extended diagnostics ignored");
        }
    } else {
        vassert!(post_ext_len == pre_ext_len, "C17/store: only a diagnostics reply touches the stored extended diagnostics");
        vassert!(p.diag == pre_diag, "C17/decode: only a well-formed diagnostics reply changes the reported diagnostics");
    }

    // ---- C08: FCB and retry counter on replies -------------------------------------------------
    let observable_change = p.state != pre_state || event.is_some() || changed || p.diag != pre_diag;
    // a reply that sends the peripheral (back) to Offline - a parameter/configuration fault report -
    // may also start a new life: the next request is then a "first" one (FCV=0/FCB=1), which is
    // what the property demands after the peripheral was declared offline
    let fresh_life = p.state == PeripheralState::Offline && pre_state != PeripheralState::Offline && p.fcb == FrameCountBit::First;
    vassert!(p.fcb == pre_fcb || p.fcb == cycled(pre_fcb) || fresh_life, "C08/fcb-rx: a reply leaves the frame count bit or toggles it (FCV=1 afterwards)");
    if observable_change {
        vassert!(p.fcb == cycled(pre_fcb) || fresh_life, "C08/toggle-after-accepted-reply: a reply that changed observable state toggles the frame count bit");
        vassert!(p.retry_count == 0, "C08/retry-count: an accepted reply resets the retry counter");
    }
    if p.fcb == pre_fcb {
        vassert!(p.retry_count == pre_rc || p.retry_count == 0, "C08/retry-count: a rejected reply never increases the retry counter");
    }
    vassert!(inv_dp(&p, &fdl), "C03/inv: representation invariant preserved by receive_reply");
    kani::cover!(pre_state == PeripheralState::ValidateConfig && p.state == PeripheralState::Offline, "cover: fault report in config validation");
    kani::cover!(pre_state == PeripheralState::ValidateConfig && p.state == PeripheralState::WaitForParam, "cover: parameter request in config validation");
    kani::cover!(dx_round && p.state == PeripheralState::ValidateConfig, "cover: SAP not enabled in data exchange");
}

#[kani::proof]
#[kani::unwind(14)]
fn c03_receive_step_q() {
    // inputs <= 4, diagnostics buffer <= 4, reply PDU <= 10 (6 standard + 4 extended)
    receive_step::<4, 4, 10>();
}

#[kani::proof]
#[kani::unwind(44)]
fn c03_receive_step_t() {
    // inputs <= 32, diagnostics buffer <= 32, reply PDU <= 40
    receive_step::<32, 32, 40>();
}

/// The invariant holds initially and `request_diagnostics` / output writes preserve it.
#[kani::proof]
#[kani::unwind(4)]
fn c03_inv_initial() {
    let mut pi_i = [0u8; 2];
    let mut pi_q = [0u8; 2];
    let fdl = any_fdl();
    let address: u8 = kani::any();
    kani::assume(address <= 125);
    let mut p = Peripheral::new(address, PeripheralOptions::default(), &mut pi_i[..], &mut pi_q[..]);
    vassert!(inv_dp(&p, &fdl), "C03/inv: representation invariant holds for a new peripheral");
    vassert!(!p.is_live() && !p.is_running() && p.fcb == FrameCountBit::First, "C08/first-request: a new peripheral starts offline with the initial frame count bit");
    p.request_diagnostics();
    p.pi_q_mut()[0] = kani::any();
    vassert!(inv_dp(&p, &fdl), "C03/inv: user calls preserve the invariant");
    kani::cover!(true, "cover: new peripheral");
}

// ==========================================================================================
// C08 pair harness: request, interlude, next request - judged on the decoded wire bytes
// ==========================================================================================

/// Decode a request frame produced by the peripheral (the decoder is the subject of C09/C10).
fn wire_header(buf: &[u8], n: usize) -> DataTelegramHeader {
    match Telegram::deserialize(&buf[..n]) {
        Some(Ok((Telegram::Data(t), _))) => t.h.clone(),
        _ => {
            vassert!(false, "C08/wire: every request is a well-formed data telegram");
            unreachable!()
        }
    }
}

fn req_fcb(h: &DataTelegramHeader) -> (FrameCountBit, RequestType) {
    match h.fc {
        FunctionCode::Request { fcb, req } => (fcb, req),
        _ => {
            vassert!(false, "C08/wire: a peripheral is only ever sent requests");
            unreachable!()
        }
    }
}

#[kani::proof]
#[kani::unwind(20)]
fn c08_request_pair_q() {
    let mut pi_i_store: [u8; 2] = kani::any();
    let ilen: usize = kani::any();
    kani::assume(ilen <= 2);
    let mut pi_q_store: [u8; 2] = kani::any();
    let user: [u8; 1] = kani::any();
    let cfg: [u8; 1] = kani::any();
    let mut diag_store = [0u8; 2];
    let pi_i_before = pi_i_store;

    let fdl = any_fdl();
    let dp = crate::dp::master::verif::mk_dp_state(crate::dp::master::verif::any_operating());
    let mut p = any_peripheral(&mut pi_i_store[..ilen], &mut pi_q_store[..], &mut diag_store[..], Some(&user[..]), Some(&cfg[..]));
    kani::assume(inv_dp(&p, &fdl));
    let addr = p.address;
    let now = crate::time::Instant::from_micros(kani::any::<u32>());
    let hp = HighPrioOnly::No;

    // ---- first request --------------------------------------------------------------------
    let mut buf1 = [0u8; 20];
    let n1 = match p.transmit_telegram(now, &dp, &fdl, TelegramTx::new(&mut buf1), hp) {
        Ok(r) => r.bytes_sent(),
        Err(_) => return, // nothing outstanding: nothing to say about a pair
    };
    let h1 = wire_header(&buf1, n1);
    let (fcb1, req1) = req_fcb(&h1);

    // ---- interlude: user calls and at most one reply (or a time-out) -----------------------
    if kani::any() {
        p.request_diagnostics();
    }
    if kani::any() {
        p.pi_q_mut()[0] = kani::any();
    }
    let state_a = p.state;
    let diag_a = p.diag.clone();
    let got_reply: bool = kani::any();
    let mut event = None;
    let pdu_store: [u8; 8] = kani::any();
    if got_reply {
        let plen: usize = kani::any();
        kani::assume(plen <= 8);
        let telegram = if kani::any() {
            Telegram::ShortConfirmation(ShortConfirmation)
        } else {
            Telegram::Data(DataTelegram {
                h: DataTelegramHeader {
                    da: fdl.parameters().address,
                    sa: addr,
                    dsap: any_sap(),
                    ssap: any_sap(),
                    fc: any_response_fc(),
                },
                pdu: &pdu_store[..plen],
            })
        };
        event = p.receive_reply(now, &dp, &fdl, telegram);
    }
    let mut image_changed = false;
    let mut i = 0;
    while i < ilen {
        if p.pi_i()[i] != pi_i_before[i] {
            image_changed = true;
        }
        i += 1;
    }
    let accepted = got_reply && (p.state != state_a || event.is_some() || p.diag != diag_a || image_changed);
    // a fault report that sent the peripheral back to Offline may start a new life (first request)
    let went_offline = got_reply && p.state == PeripheralState::Offline && state_a != PeripheralState::Offline;
    if kani::any() {
        p.request_diagnostics();
    }

    // ---- second request ---------------------------------------------------------------------
    let mut buf2 = [0u8; 20];
    match p.transmit_telegram(now, &dp, &fdl, TelegramTx::new(&mut buf2), hp) {
        Ok(r) => {
            let h2 = wire_header(&buf2, r.bytes_sent());
            let (fcb2, req2) = req_fcb(&h2);
            if fcb2.fcv() && fcb2.fcb() == fcb1.fcb() {
                vassert!(!accepted, "C08/same-fcb-after-accepted-reply: a request following an accepted reply never re-uses the frame count bit");
                vassert!(
                    h2.da == h1.da && h2.dsap == h1.dsap && h2.ssap == h1.ssap && req2 == req1,
                    "C08/same-fcb-different-service: two consecutive requests with the same frame count bit are the same service to the same destination (a retransmission)"
                );
                kani::cover!(got_reply, "cover: retransmission after a rejected reply");
                kani::cover!(!got_reply, "cover: retransmission after a time-out");
            }
            if accepted {
                vassert!((fcb2.fcv() && fcb2.fcb() != fcb1.fcb()) || (went_offline && !fcb2.fcv() && fcb2.fcb()), "C08/toggle-after-accepted-reply: the request after an accepted reply toggles the bit with FCV=1");
                kani::cover!(true, "cover: toggled request after accepted reply");
            }
            vassert!(h2.da == addr, "C08/wire: requests go to the peripheral's address");
        }
        Err((_tx, Some(ev))) => {
            vassert!(ev == PeripheralEvent::Offline, "C08/offline-event: the only event of a transmit turn is Offline");
            // the peripheral was declared offline: the next request is the first of a new life
            let mut buf3 = [0u8; 20];
            match p.transmit_telegram(now, &dp, &fdl, TelegramTx::new(&mut buf3), hp) {
                Ok(r) => {
                    let h3 = wire_header(&buf3, r.bytes_sent());
                    let (fcb3, _) = req_fcb(&h3);
                    vassert!(h3.dsap == Some(60) && h3.ssap == Some(62), "C08/offline-probe: an offline peripheral is probed with a diagnostics request");
                    vassert!(!fcb3.fcv() && fcb3.fcb(), "C08/first-after-offline: the first request after the Offline event carries FCV=0/FCB=1");
                    kani::cover!(true, "cover: first probe after Offline event");
                }
                Err(_) => vassert!(false, "C08/offline-probe: a peripheral that was just declared offline is probed in the next turn"),
            }
        }
        Err((_tx, None)) => {}
    }
}

// ==========================================================================================
// helpers for the DP master harnesses (src/dp/master.rs cannot see this module's private types)
// ==========================================================================================

#[derive(Clone, Copy, PartialEq, Eq)]
pub(crate) struct PSnap {
    pub state: u8,
    pub live: bool,
    pub running: bool,
    pub rc: u8,
    pub fcb: FrameCountBit,
    pub diag_needed: bool,
    pub address: u8,
}

pub(crate) fn snap(p: &Peripheral) -> PSnap {
    PSnap {
        state: p.state as u8,
        live: p.is_live(),
        running: p.is_running(),
        rc: p.retry_count,
        fcb: p.fcb,
        diag_needed: p.diag_needed,
        address: p.address,
    }
}

/// Reference prediction: will this peripheral send a request when given its turn?
pub(crate) fn ref_will_send(p: &Peripheral, fdl: &FdlActiveStation) -> bool {
    let diag_round = if p.retry_count == 0 { p.diag_needed } else { p.diag_requested };
    ref_next_request(
        p.state,
        p.retry_count,
        fdl.parameters().max_retry_limit,
        diag_round,
        p.options.user_parameters.is_some(),
        p.options.config.is_some(),
    ) != ReqKind::None
}

/// Reference prediction: will this peripheral be declared offline when given its turn?
pub(crate) fn ref_goes_offline(p: &Peripheral, fdl: &FdlActiveStation) -> bool {
    p.retry_count > fdl.parameters().max_retry_limit
}

// ==========================================================================================
// abstract peripheral for the DP master harnesses: `Peripheral::transmit_telegram` replaced by
// the reference behaviour that c03_transmit_step_* prove the real function to have (request
// kind, retry counting, Offline event); the frame contents are not the master's business.
// ==========================================================================================

pub(crate) fn abs_transmit_telegram<'a, 'b>(
    p: &mut Peripheral<'a>,
    _now: crate::time::Instant,
    _dp: &crate::dp::DpMasterState,
    fdl: &FdlActiveStation,
    tx: TelegramTx<'b>,
    _high_prio_only: HighPrioOnly,
) -> Result<crate::fdl::TelegramTxResponse, (TelegramTx<'b>, Option<PeripheralEvent>)>
where
    'a: 'a,
{
    if p.retry_count > fdl.parameters().max_retry_limit {
        p.state = PeripheralState::Offline;
        p.fcb.reset();
        p.retry_count = 0;
        return Err((tx, Some(PeripheralEvent::Offline)));
    }
    if ref_will_send(p, fdl) {
        if in_dx(p.state) && p.retry_count == 0 {
            p.diag_requested = p.diag_needed;
        }
        p.retry_count += 1;
        Ok(crate::fdl::TelegramTxResponse::new(6, Some(p.address)))
    } else {
        p.retry_count = 0;
        Err((tx, None))
    }
}

/// Abstract `receive_reply`: the addressed peripheral ends up in an arbitrary state satisfying
/// the invariant, with an arbitrary event (what the real function does is c03_receive_step_*'s
/// subject); used to check that the master routes the reply to exactly one slot.
pub(crate) fn abs_receive_reply<'a>(
    p: &mut Peripheral<'a>,
    _now: crate::time::Instant,
    _dp: &crate::dp::DpMasterState,
    fdl: &FdlActiveStation,
    _telegram: Telegram,
) -> Option<PeripheralEvent>
where
    'a: 'a,
{
    p.state = any_pstate();
    p.retry_count = kani::any();
    p.fcb = any_live_fcb();
    p.diag_needed = kani::any();
    kani::assume(inv_dp(p, fdl));
    match kani::any::<u8>() {
        0 => None,
        1 => Some(PeripheralEvent::Online),
        2 => Some(PeripheralEvent::Configured),
        3 => Some(PeripheralEvent::ConfigError),
        4 => Some(PeripheralEvent::ParameterError),
        5 => Some(PeripheralEvent::DataExchanged),
        _ => Some(PeripheralEvent::Diagnostics),
    }
}

// ==========================================================================================
// C07: reference master (RefMaster) refined by the real Peripheral, and the joint system
// RefMaster x RefSlave
// ==========================================================================================
//
// Composition: (1) `c07_refines_*` prove, one step from EVERY state, that the real Peripheral's
// control state evolves exactly like RefMaster (a complete, deterministic reference of the DP-V0
// master-side slave handler); (2) `c07_joint_*` explore RefMaster x RefSlave (reference DP slave
// with frame-count-bit retry detection) from EVERY joint state.  Together: from every state the
// real master can be in, a conforming slave is back in data exchange within the stated number of
// fault-free turns.

#[derive(Clone, Copy, PartialEq, Eq)]
pub(crate) struct RefMaster {
    pub state: PeripheralState,
    pub rc: u8,
    pub fcb: FrameCountBit,
    pub diag_needed: bool,
    pub diag_requested: bool,
    pub limit: u8,
    /// inputs configured (length > 0)?
    pub has_inputs: bool,
    /// implementation freedom: a parameter/configuration fault report (peripheral back to
    /// Offline) may also reset the frame count bit, so that the next probe is a "first" request
    pub reset_on_fault: bool,
}

#[derive(Clone, Copy, PartialEq, Eq)]
pub(crate) enum Reply {
    /// short confirmation
    Sc,
    /// well-formed diagnostics response (DSAP 62, SSAP 60, >= 6 bytes) with these flags
    Diag { prm_fault: bool, cfg_fault: bool, prm_req: bool, not_ready: bool },
    /// data telegram that is not a well-formed diagnostics response: response status class and
    /// whether its length equals the configured input length
    Data { status: ResponseStatus, len_ok: bool },
}

impl RefMaster {
    pub fn of(p: &Peripheral, fdl: &FdlActiveStation) -> Self {
        RefMaster {
            state: p.state,
            rc: p.retry_count,
            fcb: p.fcb,
            diag_needed: p.diag_needed,
            diag_requested: p.diag_requested,
            limit: fdl.parameters().max_retry_limit,
            has_inputs: p.pi_i.len() > 0,
            reset_on_fault: false,
        }
    }

    /// One transmit turn: (request kind sent, Offline event raised).  User parameters and
    /// configuration are present (a peripheral without them never leaves the bring-up).
    pub fn transmit(&mut self) -> (ReqKind, bool) {
        if self.rc > self.limit {
            self.state = PeripheralState::Offline;
            self.fcb = FrameCountBit::First;
            self.rc = 0;
            return (ReqKind::None, true);
        }
        if in_dx(self.state) && self.rc == 0 {
            self.diag_requested = self.diag_needed;
        }
        let k = ref_next_request(self.state, self.rc, self.limit, self.diag_requested, true, true);
        if k == ReqKind::None {
            self.rc = 0;
        } else {
            self.rc += 1;
        }
        (k, false)
    }

    /// One reply; returns the event.
    pub fn receive(&mut self, r: Reply) -> Option<PeripheralEvent> {
        let diag = matches!(r, Reply::Diag { .. });
        match self.state {
            PeripheralState::Offline => {
                if diag {
                    self.fcb = cycled(self.fcb);
                    self.rc = 0;
                    self.state = PeripheralState::WaitForParam;
                    Some(PeripheralEvent::Online)
                } else {
                    None
                }
            }
            PeripheralState::WaitForParam | PeripheralState::WaitForConfig => {
                if r == Reply::Sc {
                    self.fcb = cycled(self.fcb);
                    self.rc = 0;
                    self.state = if self.state == PeripheralState::WaitForParam { PeripheralState::WaitForConfig } else { PeripheralState::ValidateConfig };
                }
                None
            }
            PeripheralState::ValidateConfig => {
                self.rc = 0;
                if let Reply::Diag { prm_fault, cfg_fault, prm_req, not_ready } = r {
                    self.fcb = cycled(self.fcb);
                    if prm_fault {
                        self.state = PeripheralState::Offline;
                        if self.reset_on_fault {
                            self.fcb = FrameCountBit::First;
                        }
                        Some(PeripheralEvent::ParameterError)
                    } else if cfg_fault {
                        self.state = PeripheralState::Offline;
                        if self.reset_on_fault {
                            self.fcb = FrameCountBit::First;
                        }
                        Some(PeripheralEvent::ConfigError)
                    } else if prm_req {
                        self.state = PeripheralState::WaitForParam;
                        None
                    } else if !not_ready {
                        self.state = PeripheralState::PreDataExchange;
                        Some(PeripheralEvent::Configured)
                    } else {
                        None
                    }
                } else {
                    None
                }
            }
            PeripheralState::PreDataExchange | PeripheralState::DataExchange => {
                if self.diag_requested {
                    if diag {
                        self.fcb = cycled(self.fcb);
                        self.rc = 0;
                        self.diag_needed = false;
                        Some(PeripheralEvent::Diagnostics)
                    } else {
                        None
                    }
                } else {
                    self.rc = 0;
                    self.fcb = cycled(self.fcb);
                    match r {
                        Reply::Sc => {
                            if self.has_inputs {
                                None
                            } else {
                                self.state = PeripheralState::DataExchange;
                                Some(PeripheralEvent::DataExchanged)
                            }
                        }
                        Reply::Diag { .. } | Reply::Data { .. } => {
                            // a diagnostics-shaped telegram in a data round is just a data telegram
                            let (status, len_ok) = match r {
                                Reply::Data { status, len_ok } => (status, len_ok),
                                _ => (ResponseStatus::Ok, false),
                            };
                            let ok = match status {
                                ResponseStatus::SapNotEnabled => {
                                    self.state = PeripheralState::ValidateConfig;
                                    false
                                }
                                ResponseStatus::Ok | ResponseStatus::DataLow => true,
                                ResponseStatus::DataHigh => {
                                    self.diag_needed = true;
                                    true
                                }
                                _ => false,
                            };
                            if ok && len_ok {
                                self.state = PeripheralState::DataExchange;
                                Some(PeripheralEvent::DataExchanged)
                            } else {
                                None
                            }
                        }
                    }
                }
            }
        }
    }
}

#[kani::proof]
#[kani::unwind(14)]
fn c07_refines_transmit() {
    let mut pi_i = [0u8; 1];
    let ilen: usize = kani::any();
    kani::assume(ilen <= 1);
    let mut pi_q = [0u8; 1];
    let user: [u8; 1] = kani::any();
    let cfg: [u8; 1] = kani::any();
    let mut diag_store = [0u8; 1];
    let fdl = any_fdl();
    let dp = crate::dp::master::verif::mk_dp_state(crate::dp::master::verif::any_operating());
    let mut p = any_peripheral(&mut pi_i[..ilen], &mut pi_q[..], &mut diag_store[..], Some(&user[..]), Some(&cfg[..]));
    kani::assume(inv_dp(&p, &fdl));
    let mut m = RefMaster::of(&p, &fdl);
    let mut buf = [0u8; 20];
    let now = crate::time::Instant::ZERO;
    let (sent, event) = match p.transmit_telegram(now, &dp, &fdl, TelegramTx::new(&mut buf), HighPrioOnly::No) {
        Ok(r) => (Some(r.bytes_sent()), None),
        Err((_t, ev)) => (None, ev),
    };
    let (kind, offline) = m.transmit();
    vassert!(sent.is_some() == (kind != ReqKind::None) && (event == Some(PeripheralEvent::Offline)) == offline && (event.is_none() || offline), "C07/refines: the real master sends a request / raises Offline exactly when the reference master does");
    if let Some(n) = sent {
        let h = wire_header(&buf, n);
        let want_dsap = match kind {
            ReqKind::Diag => Some(60),
            ReqKind::SetPrm => Some(61),
            ReqKind::ChkCfg => Some(62),
            _ => None,
        };
        vassert!(h.dsap == want_dsap, "C07/refines: the request is of the kind the reference master sends");
    }
    vassert!(RefMaster::of(&p, &fdl) == m, "C07/refines: after a transmit turn the real peripheral's control state equals the reference master's");
    kani::cover!(offline, "cover: offline declared");
    kani::cover!(kind == ReqKind::DataExchange, "cover: data exchange request");
}

#[kani::proof]
#[kani::unwind(14)]
fn c07_refines_receive() {
    let mut pi_i = [0u8; 1];
    let ilen: usize = kani::any();
    kani::assume(ilen <= 1);
    let mut pi_q = [0u8; 1];
    let mut diag_store = [0u8; 2];
    let fdl = any_fdl();
    let dp = crate::dp::master::verif::mk_dp_state(crate::dp::master::verif::any_operating());
    let mut p = any_peripheral(&mut pi_i[..ilen], &mut pi_q[..], &mut diag_store[..], None, None);
    kani::assume(inv_dp(&p, &fdl));
    let mut m = RefMaster::of(&p, &fdl);

    let pdu_store: [u8; 8] = kani::any();
    let plen: usize = kani::any();
    kani::assume(plen <= 8);
    let is_sc: bool = kani::any();
    let dsap = any_sap();
    let ssap = any_sap();
    let rstatus = any_response_status();
    let telegram = if is_sc {
        Telegram::ShortConfirmation(ShortConfirmation)
    } else {
        Telegram::Data(DataTelegram {
            h: DataTelegramHeader { da: fdl.parameters().address, sa: p.address, dsap, ssap, fc: FunctionCode::Response { state: any_response_state(), status: rstatus } },
            pdu: &pdu_store[..plen],
        })
    };
    let flags = u16::from(pdu_store[0]) | (u16::from(pdu_store[1]) << 8);
    let reply = if is_sc {
        Reply::Sc
    } else if dsap == Some(62) && ssap == Some(60) && plen >= 6 {
        Reply::Diag { prm_fault: flags & 0x0040 != 0, cfg_fault: flags & 0x0004 != 0, prm_req: flags & 0x0100 != 0, not_ready: flags & 0x0002 != 0 }
    } else {
        Reply::Data { status: rstatus, len_ok: plen == ilen }
    };
    // a diagnostics-shaped telegram in a data round counts as data with its own status/length
    let reply_for_ref = match (reply, in_dx(m.state) && !m.diag_requested) {
        (Reply::Diag { .. }, true) => Reply::Data { status: rstatus, len_ok: plen == ilen },
        (r, _) => r,
    };
    let ev = p.receive_reply(crate::time::Instant::ZERO, &dp, &fdl, telegram);
    // a diagnostics-shaped reply with a NEGATIVE response status (no conforming slave sends one):
    // the master may evaluate it as a diagnostics reply or ignore it like a malformed one
    let nak = matches!(rstatus, ResponseStatus::UserError | ResponseStatus::NoResources | ResponseStatus::SapNotEnabled | ResponseStatus::NoDataReady);
    // implementation freedom: a fault report may also reset the frame count bit (RefMaster docs);
    // the variant is chosen by what the implementation did, both are covered by the history harnesses
    m.reset_on_fault = p.state == PeripheralState::Offline && p.fcb == FrameCountBit::First;
    let mut m_ignore = m;
    let ev_ignore = m_ignore.receive(Reply::Data { status: rstatus, len_ok: plen == ilen });
    let may_ignore = nak && matches!(reply_for_ref, Reply::Diag { .. });
    let want_ev = m.receive(reply_for_ref);
    let mut got = RefMaster::of(&p, &fdl);
    got.reset_on_fault = m.reset_on_fault;
    let as_ref = ev == want_ev && got == m;
    let as_ignored = may_ignore && ev == ev_ignore && got == m_ignore;
    vassert!(as_ref || as_ignored, "C07/refines: the real master raises the event the reference master raises and its control state afterwards equals the reference master's");
    kani::cover!(ev == Some(PeripheralEvent::Configured), "cover: configured");
    kani::cover!(ev == Some(PeripheralEvent::DataExchanged), "cover: data exchanged");
}

// ---- reference DP slave ------------------------------------------------------------------------

#[derive(Clone, Copy, PartialEq, Eq)]
pub(crate) enum Stage {
    WaitPrm,
    WaitCfg,
    DataExch,
}

#[derive(Clone, Copy, PartialEq, Eq)]
pub(crate) struct RefSlave {
    pub stage: Stage,
    /// frame count bit of the last request accepted from the master (None: expecting a first request)
    pub last_fcb: Option<bool>,
    /// response to the last request, repeated when the request is retransmitted
    pub stored: Reply,
}

impl RefSlave {
    fn diag(&self) -> Reply {
        Reply::Diag {
            prm_fault: false,
            cfg_fault: false,
            prm_req: self.stage == Stage::WaitPrm,
            not_ready: self.stage != Stage::DataExch,
        }
    }

    /// Handle one request (DP-V0 slave state machine with FDL retry detection).
    pub fn handle(&mut self, kind: ReqKind, fcb: FrameCountBit) -> Reply {
        let (fcv, bit) = ref_fcv_fcb(fcb);
        if fcv && self.last_fcb == Some(bit) {
            // same frame count bit as the last accepted request: a retransmission, answered by
            // repeating the stored response without executing the service again
            return self.stored;
        }
        self.last_fcb = if fcv || bit { Some(bit) } else { None };
        let sap_not_enabled = Reply::Data { status: ResponseStatus::SapNotEnabled, len_ok: false };
        let r = match kind {
            ReqKind::Diag => self.diag(),
            ReqKind::SetPrm => {
                // parameters match (the property's premise): accepted in every stage
                self.stage = Stage::WaitCfg;
                Reply::Sc
            }
            ReqKind::ChkCfg => {
                if self.stage == Stage::WaitCfg {
                    self.stage = Stage::DataExch;
                    Reply::Sc
                } else if self.stage == Stage::DataExch {
                    Reply::Sc
                } else {
                    sap_not_enabled
                }
            }
            ReqKind::DataExchange => {
                if self.stage == Stage::DataExch {
                    Reply::Data { status: ResponseStatus::DataLow, len_ok: true }
                } else {
                    sap_not_enabled
                }
            }
            ReqKind::None => unreachable!(),
        };
        self.stored = r;
        r
    }

    pub fn power_cycle(&mut self) {
        self.stage = Stage::WaitPrm;
        self.last_fcb = None;
    }
}

fn any_ref_master(limit: u8) -> RefMaster {
    let m = RefMaster {
        state: any_pstate(),
        rc: kani::any(),
        fcb: any_live_fcb(),
        diag_needed: kani::any(),
        diag_requested: kani::any(),
        limit,
        has_inputs: kani::any(),
        reset_on_fault: kani::any(),
    };
    kani::assume(m.rc <= limit + 1 && (m.state != PeripheralState::Offline || m.rc <= 1));
    m
}

fn any_ref_slave() -> RefSlave {
    let stage = match kani::any::<u8>() {
        0 => Stage::WaitPrm,
        1 => Stage::WaitCfg,
        _ => Stage::DataExch,
    };
    let stored = match kani::any::<u8>() {
        0 => Reply::Sc,
        1 => Reply::Diag { prm_fault: false, cfg_fault: false, prm_req: kani::any(), not_ready: kani::any() },
        2 => Reply::Data { status: ResponseStatus::DataLow, len_ok: true },
        _ => Reply::Data { status: ResponseStatus::SapNotEnabled, len_ok: false },
    };
    RefSlave { stage, last_fcb: if kani::any() { Some(kani::any()) } else { None }, stored }
}

/// Bounded history + fault-free continuation on the reference pair: from a fresh master and a
/// slave in any stage, `K` events chosen freely among {fault-free turn, turn with a transient
/// parameter/configuration fault report, turn whose reply signals diagnostics (high priority),
/// request lost, reply lost, slave power cycle, user diagnostics request}, then `TURNS`
/// fault-free turns: master in DataExchange, slave in Data_Exch, and stable.
fn history_then_progress<const K: usize, const TURNS: usize>(limit: u8) {
    let mut m = RefMaster { state: PeripheralState::Offline, rc: 0, fcb: FrameCountBit::First, diag_needed: false, diag_requested: false, limit, has_inputs: kani::any(), reset_on_fault: kani::any() };
    let mut s = any_ref_slave();
    s.last_fcb = None; // nothing was ever received from this master
    let mut live = false;
    let mut e = 0;
    while e < K {
        let ev: u8 = kani::any();
        kani::assume(ev <= 7);
        match ev {
            6 => s.power_cycle(),
            7 => m.diag_needed = true, // request_diagnostics()
            _ => {
                let (kind, offline) = m.transmit();
                if offline {
                    vassert!(live, "C14/lifecycle: Offline is reported only for a peripheral that was live");
                    live = false;
                }
                if kind != ReqKind::None && ev != 5 {
                    // ev 5: the request is lost on the bus
                    let mut r = s.handle(kind, m.fcb);
                    if let Reply::Diag { prm_req, not_ready, .. } = r {
                        // transient fault reports
                        if ev == 1 {
                            r = Reply::Diag { prm_fault: true, cfg_fault: false, prm_req, not_ready };
                        } else if ev == 2 {
                            r = Reply::Diag { prm_fault: false, cfg_fault: true, prm_req, not_ready };
                        }
                    }
                    if ev == 3 && r == (Reply::Data { status: ResponseStatus::DataLow, len_ok: true }) {
                        r = Reply::Data { status: ResponseStatus::DataHigh, len_ok: true };
                    }
                    if ev != 4 {
                        // ev 4: the reply is lost on the bus
                        let evt = m.receive(r);
                        match evt {
                            Some(PeripheralEvent::Online) => {
                                vassert!(!live, "C07/events: Online is reported only for a peripheral that was not live");
                                live = true;
                            }
                            Some(PeripheralEvent::ParameterError) | Some(PeripheralEvent::ConfigError) => live = false,
                            _ => {}
                        }
                    }
                }
            }
        }
        vassert!(live == (m.state != PeripheralState::Offline), "C14/lifecycle: the events tell whether the peripheral is live");
        e += 1;
    }
    kani::cover!(m.state == PeripheralState::DataExchange && m.rc == limit + 1, "cover: history ends with a running peripheral about to be declared offline");
    kani::cover!(m.state == PeripheralState::Offline && m.fcb != FrameCountBit::First, "cover: history ends offline after a fault report");
    // fault-free continuation
    let mut t = 0;
    while t < TURNS {
        let (kind, _offline) = m.transmit();
        if kind != ReqKind::None {
            let r = s.handle(kind, m.fcb);
            m.receive(r);
        }
        t += 1;
    }
    vassert!(m.state == PeripheralState::DataExchange && s.stage == Stage::DataExch, "C07/progress: after any history of faults a conforming peripheral is back in cyclic data exchange within the bounded number of fault-free turns");
    let (kind, offline) = m.transmit();
    vassert!(!offline && (kind == ReqKind::DataExchange || kind == ReqKind::Diag), "C07/progress: once in data exchange the master keeps exchanging data (or fetching requested diagnostics)");
    let r = s.handle(kind, m.fcb);
    m.receive(r);
    vassert!(m.state == PeripheralState::DataExchange && s.stage == Stage::DataExch, "C07/progress: data exchange is stable on a fault-free bus");
}

#[kani::proof]
#[kani::unwind(14)]
fn c07_history_progress_limit1_q() {
    history_then_progress::<10, 12>(1);
}

#[kani::proof]
#[kani::unwind(26)]
fn c07_history_progress_limit1_t() {
    history_then_progress::<22, 12>(1);
}

#[kani::proof]
#[kani::unwind(28)]
fn c07_history_progress_limit3_t() {
    history_then_progress::<26, 14>(3);
}

/// A peripheral that stops answering is reported Offline after exactly 1+limit transmissions of
/// the unanswered request (counting the ones already made), exactly once, and is then only probed.
#[kani::proof]
#[kani::unwind(40)]
fn c07_silent_goes_offline() {
    let limit: u8 = kani::any();
    kani::assume(limit >= 1 && limit <= 15);
    let mut m = any_ref_master(limit);
    kani::assume(m.state != PeripheralState::Offline);
    let rc0 = m.rc;
    let mut sent = 0u8;
    let mut offline_events = 0u8;
    let mut t = 0;
    while t < 36 {
        let (kind, offline) = m.transmit();
        if offline {
            offline_events += 1;
        } else if kind != ReqKind::None && offline_events == 0 {
            sent += 1;
        } else if kind != ReqKind::None {
            vassert!(kind == ReqKind::Diag, "C08/offline-probe: an offline peripheral is only probed with diagnostics requests");
        }
        t += 1;
    }
    vassert!(offline_events == 1, "C07/offline: a peripheral that stops answering is reported Offline exactly once");
    vassert!(sent + rc0 == limit + 1, "C08/retry-limit: an unanswered request is transmitted exactly 1+max_retry_limit times before the peripheral is declared offline");
    vassert!(m.state == PeripheralState::Offline && m.fcb == FrameCountBit::First, "C08/first-after-offline: probing restarts with the initial frame count bit");
}

// ==========================================================================================
// C04 at the image sizes the step harnesses do not reach: process images of concrete large
// length L with fully symbolic content, peripheral in the data-exchange states.
// ==========================================================================================

fn dx_large_transmit<const L: usize, const B: usize>() {
    let mut pi_i = [0u8; 2];
    let mut pi_q_store: [u8; L] = kani::any();
    let pi_q_copy = pi_q_store;
    let fdl = any_fdl();
    let op = crate::dp::master::verif::any_operating();
    let dp = crate::dp::master::verif::mk_dp_state(op);
    let mut p = light_peripheral(&mut pi_i[..], &mut pi_q_store[..], None, None);
    kani::assume(inv_dp(&p, &fdl));
    kani::assume(in_dx(p.state));
    kani::assume(p.retry_count <= fdl.parameters().max_retry_limit);
    // a data exchange round: first transmission without a diagnostics request pending, or the
    // retransmission of a data exchange request
    kani::assume(if p.retry_count == 0 { !p.diag_needed } else { !p.diag_requested });
    let pre_fcb = p.fcb;
    let addr = p.address;
    let hp = if kani::any() { HighPrioOnly::Yes } else { HighPrioOnly::No };
    let now = crate::time::Instant::from_micros(kani::any::<u32>());
    let mut buf = [0xAAu8; B];
    let sent = match p.transmit_telegram(now, &dp, &fdl, TelegramTx::new(&mut buf), hp) {
        Ok(r) => Some(r),
        Err(_) => None,
    };
    vassert!(sent.is_some(), "C04/dx-request: a running peripheral is sent its Data_Exchange request");
    let r = sent.unwrap();
    let h = DataTelegramHeader { da: addr, sa: fdl.parameters().address, dsap: None, ssap: None, fc: FunctionCode::Request { fcb: pre_fcb, req: RequestType::SrdHigh } };
    let mut expect = [0u8; B];
    let elen = ref_encode(&h, L, |i| if op == crate::dp::OperatingState::Operate { pi_q_copy[i] } else { 0 }, &mut expect);
    vassert!(r.bytes_sent() == elen && r.expects_reply() == Some(addr), "C04/dx-request: frame length equals the reference frame, a reply is expected");
    let mut i = 0;
    while i < elen {
        vassert!(buf[i] == expect[i], "C04/dx-request: a Data_Exchange request is the reference frame carrying exactly the current output image (all zeros in Clear), on first transmission and on every retransmission");
        i += 1;
    }
    let mut i = 0;
    while i < L {
        vassert!(p.pi_q()[i] == pi_q_copy[i], "C04/pi-q-readonly: transmitting never writes the output image");
        i += 1;
    }
    kani::cover!(op == crate::dp::OperatingState::Operate && p.retry_count > 1, "cover: large output image retransmitted in Operate");
    kani::cover!(op == crate::dp::OperatingState::Clear, "cover: large output image in Clear");
}

#[kani::proof]
#[kani::unwind(258)]
fn c04_dx_large_transmit_244() {
    dx_large_transmit::<244, 256>();
}

#[kani::proof]
#[kani::unwind(140)]
fn c04_dx_large_transmit_129_t() {
    dx_large_transmit::<129, 138>();
}

fn dx_large_receive<const L: usize, const P: usize>() {
    let mut pi_i_store: [u8; L] = kani::any();
    let pi_i_before = pi_i_store;
    let mut pi_q_store = [0x5Au8; 2];
    let fdl = any_fdl();
    let dp = crate::dp::master::verif::mk_dp_state(crate::dp::master::verif::any_operating());
    let mut p = light_peripheral(&mut pi_i_store[..], &mut pi_q_store[..], None, None);
    kani::assume(inv_dp(&p, &fdl));
    kani::assume(in_dx(p.state) && !p.diag_requested);
    let addr = p.address;
    // reply lengths around the configured length: L-1, L, L+1 (P = L+1 <= 246 fits a frame)
    let pdu_store: [u8; P] = kani::any();
    let plen: usize = kani::any();
    kani::assume(plen <= P);
    kani::assume(plen + 1 >= L);
    let is_sc: bool = kani::any();
    let rstatus = any_response_status();
    let telegram = if is_sc {
        Telegram::ShortConfirmation(ShortConfirmation)
    } else {
        Telegram::Data(DataTelegram {
            h: DataTelegramHeader { da: fdl.parameters().address, sa: addr, dsap: None, ssap: None, fc: FunctionCode::Response { state: any_response_state(), status: rstatus } },
            pdu: &pdu_store[..plen],
        })
    };
    let now = crate::time::Instant::from_micros(kani::any::<u32>());
    let event = p.receive_reply(now, &dp, &fdl, telegram);

    let mut changed = false;
    let mut equals_pdu = plen == L;
    let mut i = 0;
    while i < L {
        if p.pi_i()[i] != pi_i_before[i] {
            changed = true;
        }
        if i < plen && p.pi_i()[i] != pdu_store[i] {
            equals_pdu = false;
        }
        i += 1;
    }
    vassert!(p.pi_i().len() == L, "C04/pi-i: the input image keeps its configured length");
    let status_bad = matches!(rstatus, ResponseStatus::UserError | ResponseStatus::NoResources | ResponseStatus::SapNotEnabled | ResponseStatus::NoDataReady);
    if changed {
        vassert!(!is_sc && plen == L && !status_bad, "C04/pi-i-necessary: only a data reply of exactly the configured length without error status changes the input image");
        vassert!(equals_pdu, "C04/pi-i-equals: after an update the input image equals the reply payload byte for byte");
    }
    if !is_sc && plen == L && matches!(rstatus, ResponseStatus::DataLow | ResponseStatus::DataHigh) {
        vassert!(equals_pdu, "C04/pi-i-sufficient: a well-formed Data_Exchange reply of the configured length updates the input image");
        vassert!(event == Some(PeripheralEvent::DataExchanged), "C04/event: DataExchanged is reported for an update");
        kani::cover!(true, "cover: large input image updated");
    }
    if event == Some(PeripheralEvent::DataExchanged) {
        vassert!(!is_sc && plen == L && !status_bad && equals_pdu, "C04/event: DataExchanged iff the input image was updated (or SC for an input-less peripheral)");
    }
    kani::cover!(!is_sc && plen == L + 1, "cover: over-long reply to a large input image");
    kani::cover!(!is_sc && plen + 1 == L && changed == false, "cover: short reply to a large input image");
    vassert!(p.pi_q()[0] == 0x5A && p.pi_q()[1] == 0x5A, "C04/pi-q-readonly: a reply never writes the output image");
}

#[kani::proof]
#[kani::unwind(248)]
fn c04_dx_large_receive_244() {
    dx_large_receive::<244, 245>();
}

#[kani::proof]
#[kani::unwind(133)]
fn c04_dx_large_receive_129_t() {
    dx_large_receive::<129, 130>();
}
