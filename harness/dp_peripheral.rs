// harness file dp_peripheral (see /verif/DESIGN.md)
