// C03 / C04 / C08 / C17 harnesses: one DP peripheral state machine step (src/dp/peripheral.rs).
//
// Included as `crate::dp::peripheral::verif` under cfg(kani).
//
// One-step inductive shape: the pre-state is symbolic under the representation invariant
// `inv_dp`, one real `transmit_telegram` / `receive_reply` runs with symbolic inputs, and the
// post-state is compared with a reference transition function written from the DP-V0 slave
// bring-up sequence (Slave_Diag -> Set_Prm -> Chk_Cfg -> Slave_Diag -> Data_Exchange).

use super::*;
use crate::fdl::{
    DataTelegram, DataTelegramHeader, FdlActiveStation, FrameCountBit, FunctionCode, HighPrioOnly,
    Parameters, RequestType, ResponseState, ResponseStatus, ShortConfirmation, Telegram, TelegramTx,
};
use crate::verif_support::*;

pub(crate) fn any_pstate() -> PeripheralState {
    match kani::any::<u8>() {
        0 => PeripheralState::Offline,
        1 => PeripheralState::WaitForParam,
        2 => PeripheralState::WaitForConfig,
        3 => PeripheralState::ValidateConfig,
        4 => PeripheralState::PreDataExchange,
        _ => PeripheralState::DataExchange,
    }
}

pub(crate) fn any_live_fcb() -> FrameCountBit {
    match kani::any::<u8>() {
        0 => FrameCountBit::First,
        1 => FrameCountBit::High,
        _ => FrameCountBit::Low,
    }
}

pub(crate) fn cycled(f: FrameCountBit) -> FrameCountBit {
    // reference: after the first request the bit alternates, starting with 0
    match f {
        FrameCountBit::First => FrameCountBit::Low,
        FrameCountBit::High => FrameCountBit::Low,
        FrameCountBit::Low => FrameCountBit::High,
        FrameCountBit::Inactive => FrameCountBit::Inactive,
    }
}

pub(crate) fn in_dx(s: PeripheralState) -> bool {
    matches!(s, PeripheralState::PreDataExchange | PeripheralState::DataExchange)
}

pub(crate) use crate::verif_support::any_fdl;

/// Symbolic peripheral over caller-provided buffers.  Everything the state machine reads is
/// symbolic; `inv_dp` constrains it to the representation invariant.
pub(crate) fn any_peripheral<'a>(
    pi_i: &'a mut [u8],
    pi_q: &'a mut [u8],
    diag_buf: &'a mut [u8],
    user_parameters: Option<&'a [u8]>,
    config: Option<&'a [u8]>,
) -> Peripheral<'a> {
    let address: u8 = kani::any();
    let ext_len: usize = kani::any();
    kani::assume(ext_len <= diag_buf.len());
    let diag = if kani::any() {
        Some(DiagnosticsInfo {
            flags: DiagnosticFlags::from_bits_retain(kani::any()),
            ident_number: kani::any(),
            master_address: if kani::any() { Some(kani::any()) } else { None },
        })
    } else {
        None
    };
    Peripheral {
        address,
        state: any_pstate(),
        retry_count: kani::any(),
        fcb: any_live_fcb(),
        pi_i: managed::ManagedSlice::Borrowed(pi_i),
        pi_q: managed::ManagedSlice::Borrowed(pi_q),
        diag,
        ext_diag: crate::dp::diagnostics::verif::mk_ext_diag(diag_buf, ext_len),
        diag_needed: kani::any(),
        diag_requested: kani::any(),
        options: PeripheralOptions {
            ident_number: kani::any(),
            sync_mode: kani::any(),
            freeze_mode: kani::any(),
            groups: kani::any(),
            max_tsdr: kani::any(),
            fail_safe: kani::any(),
            user_parameters,
            config,
        },
    }
}

/// Representation invariant of a peripheral (inductive: holds for `Peripheral::new`, preserved by
/// every `transmit_telegram` / `receive_reply` / `request_diagnostics`; proved by the step
/// harnesses below, which assume it before and assert it after).
pub(crate) fn inv_dp(p: &Peripheral, fdl: &FdlActiveStation) -> bool {
    p.address <= 125
        && p.retry_count <= fdl.parameters().max_retry_limit + 1
        && (p.state != PeripheralState::Offline || p.retry_count <= 1)
        && p.fcb != FrameCountBit::Inactive
}

#[derive(Clone, Copy, PartialEq, Eq)]
enum ReqKind {
    None,
    Diag,
    SetPrm,
    ChkCfg,
    DataExchange,
}

/// Which request the reference DP master sends next for a peripheral in this state.
fn ref_next_request(state: PeripheralState, retry_count: u8, limit: u8, diag_needed: bool, has_prm: bool, has_cfg: bool) -> ReqKind {
    if retry_count > limit {
        return ReqKind::None; // declared offline in this call
    }
    match state {
        PeripheralState::Offline => {
            if retry_count == 0 {
                ReqKind::Diag
            } else {
                ReqKind::None
            }
        }
        PeripheralState::WaitForParam => {
            if has_prm {
                ReqKind::SetPrm
            } else {
                ReqKind::None
            }
        }
        PeripheralState::WaitForConfig => {
            if has_cfg {
                ReqKind::ChkCfg
            } else {
                ReqKind::None
            }
        }
        PeripheralState::ValidateConfig => ReqKind::Diag,
        PeripheralState::PreDataExchange | PeripheralState::DataExchange => {
            if diag_needed {
                ReqKind::Diag
            } else {
                ReqKind::DataExchange
            }
        }
    }
}

// ==========================================================================================
// transmit step: C03 (PDU contents, DX only in S_dx), C04 (DX payload == pi_q), C08 (retry limit,
// Offline event, FCB on the wire)
// ==========================================================================================

fn transmit_step<const U: usize, const C: usize, const Q: usize, const B: usize>() {
    let mut pi_i = [0u8; 2];
    let mut pi_q_store: [u8; Q] = kani::any();
    let qlen: usize = kani::any();
    kani::assume(qlen <= Q);
    let user_store: [u8; U] = kani::any();
    let ulen: usize = kani::any();
    kani::assume(ulen <= U);
    let cfg_store: [u8; C] = kani::any();
    let clen: usize = kani::any();
    kani::assume(clen <= C);
    let has_prm: bool = kani::any();
    let has_cfg: bool = kani::any();
    let mut diag_buf = [0u8; 4];

    let fdl = any_fdl();
    let op = crate::dp::master::verif::any_operating();
    let dp = crate::dp::master::verif::mk_dp_state(op);
    let pi_q_copy = pi_q_store;
    let mut p = any_peripheral(
        &mut pi_i[..],
        &mut pi_q_store[..qlen],
        &mut diag_buf[..],
        if has_prm { Some(&user_store[..ulen]) } else { None },
        if has_cfg { Some(&cfg_store[..clen]) } else { None },
    );
    kani::assume(inv_dp(&p, &fdl));

    let pre_state = p.state;
    let pre_rc = p.retry_count;
    let pre_fcb = p.fcb;
    let pre_dn = p.diag_needed;
    // a new request (retry counter 0) polls diagnostics iff the user or the peripheral asked
    // for it; a retransmission repeats the kind of the request it retries
    let diag_round = if p.retry_count == 0 { p.diag_needed } else { p.diag_requested };
    let addr = p.address;
    let limit = fdl.parameters().max_retry_limit;
    let hp = if kani::any() { HighPrioOnly::Yes } else { HighPrioOnly::No };
    let now = crate::time::Instant::from_micros(kani::any::<u32>());

    let mut buf = [0xAAu8; B];
    let (sent, event) = match p.transmit_telegram(now, &dp, &fdl, TelegramTx::new(&mut buf), hp) {
        Ok(r) => (Some(r), None),
        Err((_tx, ev)) => (None, ev),
    };

    let want = ref_next_request(pre_state, pre_rc, limit, diag_round, has_prm, has_cfg);

    // ---- C08: retry limit and Offline event -------------------------------------------------
    if pre_rc > limit {
        assert!(sent.is_none(), "C08/retry-limit: nothing is transmitted once 1+max_retry_limit transmissions went unanswered");
        assert!(event == Some(PeripheralEvent::Offline), "C08/offline-event: exceeding the retry limit raises the Offline event");
        assert!(p.state == PeripheralState::Offline && !p.is_live(), "C08/offline-event: the peripheral is offline afterwards");
        assert!(pre_state != PeripheralState::Offline, "C14/lifecycle: Offline is raised only while the peripheral was live");
        assert!(p.retry_count == 0, "C08/offline-probe: the retry counter restarts for the offline probe");
        assert!(p.fcb == FrameCountBit::First, "C08/first-after-offline: the frame count bit is re-initialised (FCV=0/FCB=1) when the peripheral is declared offline");
        kani::cover!(pre_state == PeripheralState::DataExchange, "cover: running peripheral declared offline");
    } else {
        assert!(event.is_none(), "C08/offline-event: no event without exceeding the retry limit");
        assert!(p.state == pre_state, "C03/tx-no-transition: transmitting does not change the bring-up state");
    }
    assert!(sent.is_some() == (want != ReqKind::None), "C03/request-kind: a request is sent exactly when the bring-up sequence has one to send");
    assert!(p.fcb == pre_fcb || (event.is_some() && p.fcb == FrameCountBit::First), "C08/fcb-tx: transmitting never toggles the frame count bit");
    assert!(p.diag_needed == pre_dn, "C08/tx-frame: a transmission does not change the pending-diagnostics flag");

    if let Some(r) = sent {
        assert!(pre_rc <= limit, "C08/retry-limit: a request goes out only within 1+max_retry_limit transmissions");
        assert!(p.retry_count == pre_rc + 1, "C08/retry-count: every transmission is counted");
        if pre_state == PeripheralState::Offline {
            assert!(want == ReqKind::Diag, "C08/offline-probe: an offline peripheral is only probed with diagnostics requests");
        }

        // reference header and PDU
        let (dsap, ssap, req, plen) = match want {
            ReqKind::Diag => (Some(60u8), Some(62u8), RequestType::SrdLow, 0usize),
            ReqKind::SetPrm => (Some(61), Some(62), RequestType::SrdLow, 7 + ulen),
            ReqKind::ChkCfg => (Some(62), Some(62), RequestType::SrdLow, clen),
            ReqKind::DataExchange => (None, None, RequestType::SrdHigh, qlen),
            ReqKind::None => unreachable!(),
        };
        let h = DataTelegramHeader {
            da: addr,
            sa: fdl.parameters().address,
            dsap,
            ssap,
            fc: FunctionCode::Request { fcb: pre_fcb, req },
        };
        let opts_ident = p.options.ident_number;
        let (sync, freeze, groups) = (p.options.sync_mode, p.options.freeze_mode, p.options.groups);
        let wd = fdl.parameters().watchdog_factors;
        let min_tsdr = fdl.parameters().min_tsdr_bits;
        let pdu = |i: usize| -> u8 {
            match want {
                ReqKind::SetPrm => match i {
                    0 => 0x80 | if sync { 0x20 } else { 0 } | if freeze { 0x10 } else { 0 } | if wd.is_some() { 0x08 } else { 0 },
                    1 => wd.map(|w| w.0).unwrap_or(0),
                    2 => wd.map(|w| w.1).unwrap_or(0),
                    3 => min_tsdr,
                    4 => (opts_ident >> 8) as u8,
                    5 => (opts_ident & 0xff) as u8,
                    6 => groups,
                    _ => user_store[i - 7],
                },
                ReqKind::ChkCfg => cfg_store[i],
                ReqKind::DataExchange => {
                    if op == crate::dp::OperatingState::Operate {
                        pi_q_copy[i]
                    } else {
                        0
                    }
                }
                _ => 0,
            }
        };
        let mut expect = [0u8; B];
        let elen = ref_encode(&h, plen, pdu, &mut expect);
        assert!(r.bytes_sent() == elen, "C03/wire: frame length equals the reference frame");
        assert!(r.expects_reply() == Some(addr), "C03/wire: the request expects a reply from the peripheral");
        let mut i = 0;
        while i < elen {
            assert!(buf[i] == expect[i], "C03/wire: request bytes equal the reference frame (SAPs, function code, FCB/FCV, PDU)");
            i += 1;
        }
        if want == ReqKind::DataExchange {
            assert!(in_dx(pre_state), "C03/dx-only-after-bringup: a Data_Exchange request is sent only in the data exchange states");
            kani::cover!(qlen == Q && op == crate::dp::OperatingState::Operate, "cover: full-size output image sent");
            kani::cover!(op == crate::dp::OperatingState::Clear && qlen > 0, "cover: Clear state sends zeros");
        }
        kani::cover!(want == ReqKind::SetPrm && ulen == U && wd.is_some(), "cover: Set_Prm with watchdog and full user data");
        kani::cover!(want == ReqKind::ChkCfg && clen == C, "cover: Chk_Cfg with full config");
        kani::cover!(want == ReqKind::Diag && pre_state == PeripheralState::Offline, "cover: offline probe");
    } else if event.is_none() {
        assert!(p.retry_count == 0, "C08/retry-count: declining resets the retry counter");
    }
    // process images untouched
    let mut i = 0;
    while i < qlen {
        assert!(p.pi_q()[i] == pi_q_copy[i], "C04/pi-q-readonly: transmitting never writes the output image");
        i += 1;
    }
    assert!(inv_dp(&p, &fdl), "C03/inv: representation invariant preserved by transmit_telegram");
}

#[kani::proof]
#[kani::unwind(24)]
fn c03_transmit_step_q() {
    // user prm <= 4, config <= 4, outputs <= 4; largest frame 7+4+2+9 = 22
    transmit_step::<4, 4, 4, 22>();
}

#[kani::proof]
#[kani::unwind(52)]
fn c03_transmit_step_t() {
    // user prm <= 32, config <= 32, outputs <= 32; largest frame 7+32+2+9 = 50
    transmit_step::<32, 32, 32, 50>();
}

// ==========================================================================================
// receive step: C03 (transition relation), C04 (input image), C08 (FCB toggles on accepted
// replies), C14 (life-cycle of events), C17 (diagnostics decoding)
// ==========================================================================================

fn receive_step<const I: usize, const D: usize, const P: usize>() {
    let mut pi_i_store: [u8; I] = kani::any();
    let ilen: usize = kani::any();
    kani::assume(ilen <= I);
    let mut pi_q_store = [0x5Au8; 2];
    let mut diag_store: [u8; D] = kani::any();
    let dcap: usize = kani::any();
    kani::assume(dcap <= D);
    let pi_i_before = pi_i_store;

    let fdl = any_fdl();
    let dp = crate::dp::master::verif::mk_dp_state(crate::dp::master::verif::any_operating());
    let mut p = any_peripheral(&mut pi_i_store[..ilen], &mut pi_q_store[..], &mut diag_store[..dcap], None, None);
    kani::assume(inv_dp(&p, &fdl));

    let pre_state = p.state;
    let pre_rc = p.retry_count;
    let pre_fcb = p.fcb;
    let pre_dn = p.diag_requested; // is the outstanding request a diagnostics request?
    let pre_needed = p.diag_needed;
    let pre_ext_len = crate::dp::diagnostics::verif::ext_diag_len(&p.ext_diag);
    let pre_diag = p.diag.clone();
    let addr = p.address;

    // The reply: anything the FDL layer can deliver (C15 admission): SC, or a data telegram with
    // a response function code from the peripheral's address to this station.
    let pdu_store: [u8; P] = kani::any();
    let plen: usize = kani::any();
    kani::assume(plen <= P);
    let is_sc: bool = kani::any();
    let dsap = any_sap();
    let ssap = any_sap();
    let rstate = any_response_state();
    let rstatus = any_response_status();
    let telegram = if is_sc {
        Telegram::ShortConfirmation(ShortConfirmation)
    } else {
        Telegram::Data(DataTelegram {
            h: DataTelegramHeader {
                da: fdl.parameters().address,
                sa: addr,
                dsap,
                ssap,
                fc: FunctionCode::Response { state: rstate, status: rstatus },
            },
            pdu: &pdu_store[..plen],
        })
    };
    let now = crate::time::Instant::from_micros(kani::any::<u32>());

    let event = p.receive_reply(now, &dp, &fdl, telegram);

    // ---- reference classification of the reply ----------------------------------------------
    let diag_ok = !is_sc && dsap == Some(62) && ssap == Some(60) && plen >= 6;
    let flags = u16::from(pdu_store[0]) | (u16::from(pdu_store[1]) << 8);
    const NOT_READY: u16 = 0x0002;
    const CFG_FAULT: u16 = 0x0004;
    const EXT_DIAG: u16 = 0x0008;
    const PRM_FAULT: u16 = 0x0040;
    const PRM_REQ: u16 = 0x0100;
    const PERMANENT: u16 = 0x0400;
    let diag_expected = pre_state == PeripheralState::Offline
        || pre_state == PeripheralState::ValidateConfig
        || (in_dx(pre_state) && pre_dn);

    // ---- C03: transition relation -------------------------------------------------------------
    let want_state = match pre_state {
        PeripheralState::Offline => {
            if diag_ok { PeripheralState::WaitForParam } else { PeripheralState::Offline }
        }
        PeripheralState::WaitForParam => {
            if is_sc { PeripheralState::WaitForConfig } else { PeripheralState::WaitForParam }
        }
        PeripheralState::WaitForConfig => {
            if is_sc { PeripheralState::ValidateConfig } else { PeripheralState::WaitForConfig }
        }
        PeripheralState::ValidateConfig => {
            if !diag_ok {
                PeripheralState::ValidateConfig
            } else if flags & PRM_FAULT != 0 || flags & CFG_FAULT != 0 {
                PeripheralState::Offline
            } else if flags & PRM_REQ != 0 {
                PeripheralState::WaitForParam
            } else if flags & NOT_READY == 0 {
                PeripheralState::PreDataExchange
            } else {
                PeripheralState::ValidateConfig
            }
        }
        s => s, // data exchange states: checked below
    };
    if !in_dx(pre_state) {
        assert!(p.state == want_state, "C03/transition: bring-up state follows the DP slave bring-up sequence");
        if in_dx(p.state) {
            assert!(
                pre_state == PeripheralState::ValidateConfig && diag_ok && flags & (PRM_FAULT | CFG_FAULT | PRM_REQ | NOT_READY) == 0,
                "C03/dx-only-after-bringup: data exchange is entered only from config validation by a ready diagnostics reply"
            );
            kani::cover!(true, "cover: peripheral becomes ready for data exchange");
        }
        let want_event = match (pre_state, p.state) {
            (PeripheralState::Offline, PeripheralState::WaitForParam) => Some(PeripheralEvent::Online),
            (PeripheralState::ValidateConfig, PeripheralState::PreDataExchange) => Some(PeripheralEvent::Configured),
            (PeripheralState::ValidateConfig, PeripheralState::Offline) => {
                if flags & PRM_FAULT != 0 { Some(PeripheralEvent::ParameterError) } else { Some(PeripheralEvent::ConfigError) }
            }
            _ => None,
        };
        assert!(event == want_event, "C14/lifecycle: Online on leaving Offline, Configured on entering data exchange, Parameter/ConfigError on a fault report, nothing else");
    } else if pre_dn {
        assert!(p.state == pre_state, "C03/transition: a diagnostics round in data exchange does not change the state");
        assert!(event == if diag_ok { Some(PeripheralEvent::Diagnostics) } else { None }, "C14/lifecycle: Diagnostics event exactly for a well-formed diagnostics reply");
        assert!(p.diag_needed == (pre_needed && !diag_ok), "C03/transition: the diagnostics request is cleared exactly by a well-formed diagnostics reply");
    }

    // ---- C04: input process image -------------------------------------------------------------
    let mut changed = false;
    let mut equals_pdu = ilen == plen;
    let mut i = 0;
    while i < ilen {
        if p.pi_i()[i] != pi_i_before[i] {
            changed = true;
        }
        if i < plen && p.pi_i()[i] != pdu_store[i] {
            equals_pdu = false;
        }
        i += 1;
    }
    assert!(p.pi_i().len() == ilen, "C04/pi-i: the input image keeps its configured length");
    let status_bad = matches!(rstatus, ResponseStatus::UserError | ResponseStatus::NoResources | ResponseStatus::SapNotEnabled | ResponseStatus::NoDataReady);
    let dx_round = in_dx(pre_state) && !pre_dn;
    if changed {
        assert!(dx_round, "C04/pi-i-necessary: the input image changes only in a data exchange round (no diagnostics outstanding)");
        assert!(!is_sc && plen == ilen && !status_bad, "C04/pi-i-necessary: only a data reply of exactly the configured length without error status changes the input image");
        assert!(equals_pdu, "C04/pi-i-equals: after an update the input image equals the reply payload byte for byte");
    }
    if dx_round && !is_sc && plen == ilen && matches!(rstatus, ResponseStatus::DataLow | ResponseStatus::DataHigh) {
        assert!(equals_pdu, "C04/pi-i-sufficient: a well-formed Data_Exchange reply of the configured length updates the input image");
        assert!(event == Some(PeripheralEvent::DataExchanged), "C04/event: DataExchanged is reported for an update");
        assert!(p.state == PeripheralState::DataExchange && p.is_running(), "C14/lifecycle: DataExchanged implies the peripheral is running");
        kani::cover!(ilen == I, "cover: full-size input image updated");
    }
    if event == Some(PeripheralEvent::DataExchanged) {
        assert!(dx_round, "C04/event: DataExchanged only in a data exchange round");
        assert!(
            (!is_sc && plen == ilen && !status_bad && equals_pdu) || (is_sc && ilen == 0),
            "C04/event: DataExchanged iff the input image was updated (or SC for an input-less peripheral)"
        );
        assert!(p.is_running(), "C14/lifecycle: DataExchanged implies is_running()");
    }
    if dx_round && is_sc && ilen == 0 {
        assert!(event == Some(PeripheralEvent::DataExchanged), "C04/event: SC to an input-less peripheral counts as data exchange");
    }
    if dx_round {
        let want = if !is_sc && rstatus == ResponseStatus::SapNotEnabled {
            PeripheralState::ValidateConfig
        } else if event == Some(PeripheralEvent::DataExchanged) {
            PeripheralState::DataExchange
        } else {
            pre_state
        };
        assert!(p.state == want, "C03/transition: data exchange continues; 'SAP not enabled' sends the peripheral back to config validation");
    }
    assert!(p.pi_q()[0] == 0x5A && p.pi_q()[1] == 0x5A, "C04/pi-q-readonly: a reply never writes the output image");

    // ---- C17: diagnostics decoding ------------------------------------------------------------
    let post_ext_len = crate::dp::diagnostics::verif::ext_diag_len(&p.ext_diag);
    if diag_expected && diag_ok {
        let d = p.last_diagnostics().unwrap();
        assert!(d.flags.bits() == flags & !PERMANENT, "C17/decode-flags: reported flags equal the first two reply bytes (little endian), without the always-one permanent bit");
        assert!(d.ident_number == (u16::from(pdu_store[4]) << 8 | u16::from(pdu_store[5])), "C17/decode-ident: ident number equals reply bytes 4..6 (big endian)");
        assert!(d.master_address == if pdu_store[3] == 255 { None } else { Some(pdu_store[3]) }, "C17/decode-master: master address equals reply byte 3 (255 = none)");
        let fits = dcap > 0 && plen - 6 <= dcap;
        if flags & EXT_DIAG != 0 && fits {
            assert!(post_ext_len == plen - 6, "C17/store: extended diagnostics stored when they fit");
            let raw = d.extended_diagnostics.raw_diag_buffer().unwrap();
            let mut i = 0;
            while i < plen - 6 {
                assert!(raw[i] == pdu_store[6 + i], "C17/store: stored extended diagnostics equal the reply's tail");
                i += 1;
            }
            kani::cover!(plen == P && plen - 6 == dcap, "cover: exactly fitting extended diagnostics");
        } else {
            assert!(post_ext_len == pre_ext_len, "C17/store: extended diagnostics that are absent or do not fit leave the stored ones unchanged");
            kani::cover!(flags & EXT_DIAG != 0 && dcap > 0 && plen - 6 > dcap, "cover: oversize extended diagnostics ignored");
        }
    } else {
        assert!(post_ext_len == pre_ext_len, "C17/store: only a diagnostics reply touches the stored extended diagnostics");
        assert!(p.diag == pre_diag, "C17/decode: only a well-formed diagnostics reply changes the reported diagnostics");
    }

    // ---- C08: FCB and retry counter on replies -------------------------------------------------
    let observable_change = p.state != pre_state || event.is_some() || changed || p.diag != pre_diag;
    assert!(p.fcb == pre_fcb || p.fcb == cycled(pre_fcb), "C08/fcb-rx: a reply leaves the frame count bit or toggles it (FCV=1 afterwards)");
    if observable_change {
        assert!(p.fcb == cycled(pre_fcb), "C08/toggle-after-accepted-reply: a reply that changed observable state toggles the frame count bit");
        assert!(p.retry_count == 0, "C08/retry-count: an accepted reply resets the retry counter");
    }
    if p.fcb == pre_fcb {
        assert!(p.retry_count == pre_rc || p.retry_count == 0, "C08/retry-count: a rejected reply never increases the retry counter");
    }
    assert!(inv_dp(&p, &fdl), "C03/inv: representation invariant preserved by receive_reply");
    kani::cover!(pre_state == PeripheralState::ValidateConfig && p.state == PeripheralState::Offline, "cover: fault report in config validation");
    kani::cover!(pre_state == PeripheralState::ValidateConfig && p.state == PeripheralState::WaitForParam, "cover: parameter request in config validation");
    kani::cover!(dx_round && p.state == PeripheralState::ValidateConfig, "cover: SAP not enabled in data exchange");
}

#[kani::proof]
#[kani::unwind(14)]
fn c03_receive_step_q() {
    // inputs <= 4, diagnostics buffer <= 4, reply PDU <= 10 (6 standard + 4 extended)
    receive_step::<4, 4, 10>();
}

#[kani::proof]
#[kani::unwind(44)]
fn c03_receive_step_t() {
    // inputs <= 32, diagnostics buffer <= 32, reply PDU <= 40
    receive_step::<32, 32, 40>();
}

/// The invariant holds initially and `request_diagnostics` / output writes preserve it.
#[kani::proof]
fn c03_inv_initial() {
    let mut pi_i = [0u8; 2];
    let mut pi_q = [0u8; 2];
    let fdl = any_fdl();
    let address: u8 = kani::any();
    kani::assume(address <= 125);
    let mut p = Peripheral::new(address, PeripheralOptions::default(), &mut pi_i[..], &mut pi_q[..]);
    assert!(inv_dp(&p, &fdl), "C03/inv: representation invariant holds for a new peripheral");
    assert!(!p.is_live() && !p.is_running() && p.fcb == FrameCountBit::First, "C08/first-request: a new peripheral starts offline with the initial frame count bit");
    p.request_diagnostics();
    p.pi_q_mut()[0] = kani::any();
    assert!(inv_dp(&p, &fdl), "C03/inv: user calls preserve the invariant");
    kani::cover!(true, "cover: new peripheral");
}

// ==========================================================================================
// C08 pair harness: request, interlude, next request - judged on the decoded wire bytes
// ==========================================================================================

/// Decode a request frame produced by the peripheral (the decoder is the subject of C09/C10).
fn wire_header(buf: &[u8], n: usize) -> DataTelegramHeader {
    match Telegram::deserialize(&buf[..n]) {
        Some(Ok((Telegram::Data(t), _))) => t.h.clone(),
        _ => {
            assert!(false, "C08/wire: every request is a well-formed data telegram");
            unreachable!()
        }
    }
}

fn req_fcb(h: &DataTelegramHeader) -> (FrameCountBit, RequestType) {
    match h.fc {
        FunctionCode::Request { fcb, req } => (fcb, req),
        _ => {
            assert!(false, "C08/wire: a peripheral is only ever sent requests");
            unreachable!()
        }
    }
}

#[kani::proof]
#[kani::unwind(20)]
fn c08_request_pair_q() {
    let mut pi_i_store: [u8; 2] = kani::any();
    let ilen: usize = kani::any();
    kani::assume(ilen <= 2);
    let mut pi_q_store: [u8; 2] = kani::any();
    let user: [u8; 1] = kani::any();
    let cfg: [u8; 1] = kani::any();
    let mut diag_store = [0u8; 2];
    let pi_i_before = pi_i_store;

    let fdl = any_fdl();
    let dp = crate::dp::master::verif::mk_dp_state(crate::dp::master::verif::any_operating());
    let mut p = any_peripheral(&mut pi_i_store[..ilen], &mut pi_q_store[..], &mut diag_store[..], Some(&user[..]), Some(&cfg[..]));
    kani::assume(inv_dp(&p, &fdl));
    let addr = p.address;
    let now = crate::time::Instant::from_micros(kani::any::<u32>());
    let hp = HighPrioOnly::No;

    // ---- first request --------------------------------------------------------------------
    let mut buf1 = [0u8; 20];
    let n1 = match p.transmit_telegram(now, &dp, &fdl, TelegramTx::new(&mut buf1), hp) {
        Ok(r) => r.bytes_sent(),
        Err(_) => return, // nothing outstanding: nothing to say about a pair
    };
    let h1 = wire_header(&buf1, n1);
    let (fcb1, req1) = req_fcb(&h1);

    // ---- interlude: user calls and at most one reply (or a time-out) -----------------------
    if kani::any() {
        p.request_diagnostics();
    }
    if kani::any() {
        p.pi_q_mut()[0] = kani::any();
    }
    let state_a = p.state;
    let diag_a = p.diag.clone();
    let got_reply: bool = kani::any();
    let mut event = None;
    let pdu_store: [u8; 8] = kani::any();
    if got_reply {
        let plen: usize = kani::any();
        kani::assume(plen <= 8);
        let telegram = if kani::any() {
            Telegram::ShortConfirmation(ShortConfirmation)
        } else {
            Telegram::Data(DataTelegram {
                h: DataTelegramHeader {
                    da: fdl.parameters().address,
                    sa: addr,
                    dsap: any_sap(),
                    ssap: any_sap(),
                    fc: any_response_fc(),
                },
                pdu: &pdu_store[..plen],
            })
        };
        event = p.receive_reply(now, &dp, &fdl, telegram);
    }
    let mut image_changed = false;
    let mut i = 0;
    while i < ilen {
        if p.pi_i()[i] != pi_i_before[i] {
            image_changed = true;
        }
        i += 1;
    }
    let accepted = got_reply && (p.state != state_a || event.is_some() || p.diag != diag_a || image_changed);
    if kani::any() {
        p.request_diagnostics();
    }

    // ---- second request ---------------------------------------------------------------------
    let mut buf2 = [0u8; 20];
    match p.transmit_telegram(now, &dp, &fdl, TelegramTx::new(&mut buf2), hp) {
        Ok(r) => {
            let h2 = wire_header(&buf2, r.bytes_sent());
            let (fcb2, req2) = req_fcb(&h2);
            if fcb2.fcv() && fcb2.fcb() == fcb1.fcb() {
                assert!(!accepted, "C08/same-fcb-after-accepted-reply: a request following an accepted reply never re-uses the frame count bit");
                assert!(
                    h2.da == h1.da && h2.dsap == h1.dsap && h2.ssap == h1.ssap && req2 == req1,
                    "C08/same-fcb-different-service: two consecutive requests with the same frame count bit are the same service to the same destination (a retransmission)"
                );
                kani::cover!(got_reply, "cover: retransmission after a rejected reply");
                kani::cover!(!got_reply, "cover: retransmission after a time-out");
            }
            if accepted {
                assert!(fcb2.fcv() && fcb2.fcb() != fcb1.fcb(), "C08/toggle-after-accepted-reply: the request after an accepted reply toggles the bit with FCV=1");
                kani::cover!(true, "cover: toggled request after accepted reply");
            }
            assert!(h2.da == addr, "C08/wire: requests go to the peripheral's address");
        }
        Err((_tx, Some(ev))) => {
            assert!(ev == PeripheralEvent::Offline, "C08/offline-event: the only event of a transmit turn is Offline");
            // the peripheral was declared offline: the next request is the first of a new life
            let mut buf3 = [0u8; 20];
            match p.transmit_telegram(now, &dp, &fdl, TelegramTx::new(&mut buf3), hp) {
                Ok(r) => {
                    let h3 = wire_header(&buf3, r.bytes_sent());
                    let (fcb3, _) = req_fcb(&h3);
                    assert!(h3.dsap == Some(60) && h3.ssap == Some(62), "C08/offline-probe: an offline peripheral is probed with a diagnostics request");
                    assert!(!fcb3.fcv() && fcb3.fcb(), "C08/first-after-offline: the first request after the Offline event carries FCV=0/FCB=1");
                    kani::cover!(true, "cover: first probe after Offline event");
                }
                Err(_) => assert!(false, "C08/offline-probe: a peripheral that was just declared offline is probed in the next turn"),
            }
        }
        Err((_tx, None)) => {}
    }
}

// ==========================================================================================
// helpers for the DP master harnesses (src/dp/master.rs cannot see this module's private types)
// ==========================================================================================

#[derive(Clone, Copy, PartialEq, Eq)]
pub(crate) struct PSnap {
    pub state: u8,
    pub live: bool,
    pub running: bool,
    pub rc: u8,
    pub fcb: FrameCountBit,
    pub diag_needed: bool,
    pub address: u8,
}

pub(crate) fn snap(p: &Peripheral) -> PSnap {
    PSnap {
        state: p.state as u8,
        live: p.is_live(),
        running: p.is_running(),
        rc: p.retry_count,
        fcb: p.fcb,
        diag_needed: p.diag_needed,
        address: p.address,
    }
}

/// Reference prediction: will this peripheral send a request when given its turn?
pub(crate) fn ref_will_send(p: &Peripheral, fdl: &FdlActiveStation) -> bool {
    let diag_round = if p.retry_count == 0 { p.diag_needed } else { p.diag_requested };
    ref_next_request(
        p.state,
        p.retry_count,
        fdl.parameters().max_retry_limit,
        diag_round,
        p.options.user_parameters.is_some(),
        p.options.config.is_some(),
    ) != ReqKind::None
}

/// Reference prediction: will this peripheral be declared offline when given its turn?
pub(crate) fn ref_goes_offline(p: &Peripheral, fdl: &FdlActiveStation) -> bool {
    p.retry_count > fdl.parameters().max_retry_limit
}
