// C18 harnesses (DP scanner part): src/dp/scan.rs, as crate::dp::scan::verif.

use super::*;
use crate::fdl::{DataTelegram, DataTelegramHeader, FdlApplication, FunctionCode, HighPrioOnly, ShortConfirmation, Telegram, TelegramTx};
use crate::verif_support::*;

fn any_scanner() -> DpScanner {
    let mut stations: bitvec::BitArr!(for 128) = bitvec::array::BitArray::ZERO;
    stations.data = [kani::any(), kani::any()];
    let cursor: u8 = kani::any();
    kani::assume(cursor <= 125);
    DpScanner {
        stations,
        cursor,
        pending_event: None,
        current_address_done: kani::any(),
    }
}

fn bit(words: &[usize; 2], a: u8) -> bool {
    words[usize::from(a) / 64] >> (usize::from(a) % 64) & 1 != 0
}

fn others_unchanged(before: &[usize; 2], after: &[usize; 2], a: u8) -> bool {
    let mut mask = [usize::MAX; 2];
    mask[usize::from(a) / 64] &= !(1usize << (usize::from(a) % 64));
    before[0] & mask[0] == after[0] & mask[0] && before[1] & mask[1] == after[1] & mask[1]
}

#[kani::proof]
#[kani::unwind(12)]
fn c18_scanner_transmit() {
    let fdl = any_fdl();
    let mut sc = any_scanner();
    let pre_cursor = sc.cursor;
    let ts = fdl.parameters().address;
    let succ = |a: u8| if a >= 125 { 0 } else { a + 1 };
    let pre_done = sc.current_address_done;
    let pre_words = sc.stations.data;
    let mut buf = [0u8; 12];
    let now = crate::time::Instant::from_micros(kani::any::<u32>());
    let hp = if kani::any() { HighPrioOnly::Yes } else { HighPrioOnly::No };
    let res = sc.transmit_telegram(now, &fdl, TelegramTx::new(&mut buf), hp);
    vassert!(sc.stations.data[0] == pre_words[0] && sc.stations.data[1] == pre_words[1], "C18/list: asking for a telegram never changes the list");
    if pre_done {
        vassert!(res.is_none(), "C18/sweep: after an address is done the application ends its turn");
        vassert!(sc.cursor == succ(pre_cursor) || (succ(pre_cursor) == ts && sc.cursor == succ(ts)), "C18/sweep: the sweep advances to the next address, wrapping after 125 (only the scanning station's own address may be skipped)");
        vassert!(!sc.current_address_done, "C18/sweep: the next address is pending");
    } else if res.is_none() {
        // declining is acceptable only when the station offers nothing but a high-priority cycle,
        // and it must not lose the pending address
        vassert!(hp == HighPrioOnly::Yes, "C18/sweep: a pending address is probed when the station offers a regular cycle");
        vassert!(sc.cursor == pre_cursor && !sc.current_address_done, "C18/sweep: a declined turn does not skip the pending address");
    } else {
        let r = res.unwrap();
        // the probe goes to the cursor address; a cursor sitting on the scanning station's own
        // address may move on by one first (nobody answers there, the property excludes it)
        let probed = sc.cursor;
        vassert!(probed == pre_cursor || (pre_cursor == ts && probed == succ(ts)), "C18/sweep: the probed address is the cursor address (only the scanning station's own address may be skipped)");
        let h = DataTelegramHeader {
            da: probed,
            sa: ts,
            dsap: Some(60),
            ssap: Some(62),
            fc: FunctionCode::Request { fcb: crate::fdl::FrameCountBit::First, req: crate::fdl::RequestType::SrdLow },
        };
        let mut expect = [0u8; 12];
        let elen = ref_encode(&h, 0, |_| 0, &mut expect);
        vassert!(r.bytes_sent() == elen && r.expects_reply() == Some(probed), "C18/probe: a diagnostics request to the cursor address, expecting its reply");
        let mut i = 0;
        while i < elen {
            vassert!(buf[i] == expect[i], "C18/probe: the probe is a first-FCB diagnostics request (DSAP 60, SSAP 62) to the cursor address");
            i += 1;
        }
        vassert!(probed <= 125, "C18/probe: only addresses 0..125 are probed");
        vassert!(!sc.current_address_done, "C18/sweep: the cursor stays until reply or time-out");
        kani::cover!(true, "cover: probe sent");
    }
    vassert!(sc.cursor <= 125, "C18/probe: only addresses 0..125 are probed");
}

#[kani::proof]
#[kani::unwind(12)]
fn c18_scanner_reply_or_timeout() {
    let fdl = any_fdl();
    let mut sc = any_scanner();
    kani::assume(!sc.current_address_done);
    let addr = sc.cursor;
    let pre_words = sc.stations.data;
    let was_set = bit(&pre_words, addr);
    let now = crate::time::Instant::from_micros(kani::any::<u32>());
    if kani::any() {
        let pdu: [u8; 9] = kani::any();
        let plen: usize = kani::any();
        kani::assume(plen <= 9);
        let is_sc: bool = kani::any();
        let dsap = any_sap();
        let ssap = any_sap();
        let t = if is_sc {
            Telegram::ShortConfirmation(ShortConfirmation)
        } else {
            Telegram::Data(DataTelegram {
                h: DataTelegramHeader { da: fdl.parameters().address, sa: addr, dsap, ssap, fc: any_response_fc() },
                pdu: &pdu[..plen],
            })
        };
        sc.receive_reply(now, &fdl, addr, t);
        let diag_ok = !is_sc && dsap == Some(62) && ssap == Some(60) && plen >= 6;
        let ev = sc.take_last_event();
        vassert!(others_unchanged(&pre_words, &sc.stations.data, addr), "C18/list: no other address changes");
        if diag_ok {
            let desc = DpPeripheralDescription {
                address: addr,
                ident: u16::from(pdu[4]) << 8 | u16::from(pdu[5]),
                master_address: if pdu[3] == 255 { None } else { Some(pdu[3]) },
            };
            vassert!(bit(&sc.stations.data, addr), "C18/list: a peripheral answering diagnostics is known");
            if was_set {
                vassert!(ev == Some(DpScanEvent::PeripheralRequery(desc)), "C18/events: a known peripheral is re-queried, not found again");
            } else {
                vassert!(ev == Some(DpScanEvent::PeripheralFound(desc)), "C18/events: Found, with ident number and master address from the reply, exactly when the peripheral was unknown");
                kani::cover!(true, "cover: peripheral found");
            }
        } else {
            vassert!(ev.is_none(), "C18/events: a reply that is not a diagnostics response produces no event");
            vassert!(bit(&sc.stations.data, addr) == was_set, "C18/list: a reply that is not a diagnostics response does not change the list");
            kani::cover!(!is_sc && plen < 6, "cover: short diagnostics reply ignored");
        }
    } else {
        sc.handle_timeout(now, &fdl, addr);
        vassert!(!bit(&sc.stations.data, addr), "C18/list: a silent address is not known");
        vassert!(others_unchanged(&pre_words, &sc.stations.data, addr), "C18/list: no other address changes");
        let ev = sc.take_last_event();
        vassert!(ev == if was_set { Some(DpScanEvent::PeripheralLost(addr)) } else { None }, "C18/events: Lost exactly when the peripheral was known");
        kani::cover!(was_set, "cover: peripheral lost");
    }
    vassert!(sc.current_address_done && sc.cursor == addr, "C18/sweep: the address is done");
}

// Bounded history for the DP scanner (see fdl_live_list.rs: livelist_history): K consecutive
// address visits against a stable population of DP peripherals (each with its own ident number),
// non-DP stations (answering with something that is not a diagnostics response) and silent
// addresses, with symbolic reply losses.
fn scanner_history<const K: usize>() {
    let fdl = any_fdl();
    let ts = fdl.parameters().address;
    let mut sc = any_scanner();
    let peripherals: [usize; 2] = [kani::any(), kani::any()];
    let strangers: [usize; 2] = [kani::any(), kani::any()];
    let ident_hi: u8 = kani::any();
    let master: u8 = kani::any();
    let succ = |a: u8| if a >= 125 { 0 } else { a + 1 };
    let mut ghost = sc.stations.data;
    let mut visited: [u8; K] = [0; K];
    let mut clean: [bool; K] = [false; K];
    let mut prev: Option<u8> = None;
    let mut k = 0;
    while k < K {
        let mut buf = [0u8; 12];
        let now = crate::time::Instant::from_micros(kani::any::<u32>());
        let mut res = sc.transmit_telegram(now, &fdl, TelegramTx::new(&mut buf), HighPrioOnly::No);
        if res.is_none() {
            // the application ended its turn (address done).  A late token may come in between: the
            // station then offers only a high-priority cycle, which may be declined or used, but
            // must not lose the pending address.  The next regular turn must probe.
            if kani::any() {
                let late = sc.transmit_telegram(now, &fdl, TelegramTx::new(&mut buf), HighPrioOnly::Yes);
                if late.is_some() {
                    res = late;
                }
            }
            if res.is_none() {
                res = sc.transmit_telegram(now, &fdl, TelegramTx::new(&mut buf), HighPrioOnly::No);
            }
        }
        vassert!(res.is_some(), "C18/sweep: at most one empty turn between two probes");
        let p = res.unwrap().expects_reply().unwrap();
        vassert!(p <= 125, "C18/probe: only addresses 0..125 are probed");
        if let Some(q) = prev {
            vassert!(p == succ(q) || (succ(q) == ts && p == succ(ts)), "C18/sweep: consecutive visits probe consecutive addresses (only the scanning station's own address may be skipped)");
        }
        prev = Some(p);
        visited[k] = p;
        let lost: bool = kani::any();
        let is_dp = bit(&peripherals, p) && p != ts;
        let is_other = !is_dp && bit(&strangers, p) && p != ts;
        let was = bit(&ghost, p);
        if is_dp && !lost {
            // ident number individual per address: high byte common, low byte = address
            let pdu = [0x00u8, 0x0c, 0x00, master, ident_hi, p];
            let t = Telegram::Data(DataTelegram {
                h: DataTelegramHeader { da: ts, sa: p, dsap: Some(62), ssap: Some(60), fc: FunctionCode::Response { state: crate::fdl::ResponseState::Slave, status: crate::fdl::ResponseStatus::DataLow } },
                pdu: &pdu,
            });
            sc.receive_reply(now, &fdl, p, t);
            let desc = DpPeripheralDescription { address: p, ident: u16::from(ident_hi) << 8 | u16::from(p), master_address: if master == 255 { None } else { Some(master) } };
            let ev = sc.take_last_event();
            vassert!(ev == Some(if was { DpScanEvent::PeripheralRequery(desc) } else { DpScanEvent::PeripheralFound(desc) }), "C18/events: Found exactly when the peripheral was unknown, Requery otherwise, with this peripheral's ident number (history)");
            ghost[usize::from(p) / 64] |= 1usize << (usize::from(p) % 64);
        } else if is_other && !lost {
            // a station that answers, but not with a diagnostics response (no SAPs)
            let t = Telegram::Data(DataTelegram {
                h: DataTelegramHeader { da: ts, sa: p, dsap: None, ssap: None, fc: FunctionCode::Response { state: any_response_state(), status: crate::fdl::ResponseStatus::Ok } },
                pdu: &[],
            });
            sc.receive_reply(now, &fdl, p, t);
            let ev = sc.take_last_event();
            vassert!(ev.is_none(), "C18/events: a station that is not a DP peripheral produces no event (history)");
        } else {
            sc.handle_timeout(now, &fdl, p);
            let ev = sc.take_last_event();
            vassert!(ev == if was { Some(DpScanEvent::PeripheralLost(p)) } else { None }, "C18/events: Lost exactly when the peripheral was known (history)");
            ghost[usize::from(p) / 64] &= !(1usize << (usize::from(p) % 64));
        }
        clean[k] = !((is_dp || is_other) && lost);
        vassert!(sc.stations.data[0] == ghost[0] && sc.stations.data[1] == ghost[1], "C18/list: the known set changes only at the probed address, as the events say (history)");
        k += 1;
    }
    let mut i = 0;
    while i < K {
        let a = visited[i];
        let mut later = false;
        let mut j = i + 1;
        while j < K {
            later |= visited[j] == a;
            j += 1;
        }
        // a non-DP station keeps whatever the scanner knew before (the one-step lemma: no change);
        // the population model of the property has DP peripherals and silent addresses
        if clean[i] && !later && a != ts && !(bit(&strangers, a) && !bit(&peripherals, a)) {
            vassert!(bit(&sc.stations.data, a) == bit(&peripherals, a), "C18/list: after a loss-free visit the scanner knows exactly the answering DP peripherals at that address (history)");
        }
        i += 1;
    }
    kani::cover!(visited[K - 1] < visited[0], "cover: the history wraps around address 125");
    kani::cover!(clean[K - 1] && bit(&peripherals, visited[K - 1]) && visited[K - 1] != ts, "cover: a peripheral is known at the end of the history");
}

#[kani::proof]
#[kani::unwind(14)]
fn c18_scanner_history_q() {
    scanner_history::<4>();
}

#[kani::proof]
#[kani::unwind(14)]
fn c18_scanner_history_t() {
    scanner_history::<10>();
}
