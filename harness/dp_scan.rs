// harness file dp_scan (see /verif/DESIGN.md)
