// C09 / C10 harnesses: telegram codec (src/fdl/telegram.rs).
//
// Included as `crate::fdl::telegram::verif` under cfg(kani).

use super::*;
use crate::verif_support::*;

// ==========================================================================================
// C09 — function code byte
// ==========================================================================================

/// Every byte either decodes or is rejected; a decoded byte re-encodes to the same function code,
/// and - for requests - to the identical byte.  The bit layout equals the reference model.
#[kani::proof]
#[kani::unwind(4)]
fn c09_fc_all_bytes() {
    let b: u8 = kani::any();
    match FunctionCode::from_byte(b) {
        Ok(fc) => {
            kani::cover!(matches!(fc, FunctionCode::Request { .. }), "cover: a request byte decodes");
            kani::cover!(matches!(fc, FunctionCode::Response { .. }), "cover: a response byte decodes");
            let b2 = fc.to_byte();
            vassert!(
                FunctionCode::from_byte(b2) == Ok(fc),
                "C09/fc-reencode: decode(encode(decode(b))) == decode(b)"
            );
            vassert!(b2 == ref_fc_byte(fc), "C09/fc-layout: encoded byte equals the reference bit layout");
            if b & 0x40 != 0 {
                vassert!(b2 == b, "C09/fc-request-bytes: a decodable request byte re-encodes to itself");
            } else {
                // Reserved bit b8 of a response is ignored on reception (recorded non-finding).
                vassert!(b2 == b & 0x7f, "C09/fc-response-bytes: a decodable response byte re-encodes to itself (b8 ignored)");
            }
        }
        Err(_) => {
            kani::cover!(true, "cover: some byte is rejected");
        }
    }
}

/// Every function code value round-trips through its byte.
#[kani::proof]
#[kani::unwind(4)]
fn c09_fc_all_values() {
    let fc = any_function_code();
    let b = fc.to_byte();
    vassert!(b == ref_fc_byte(fc), "C09/fc-layout: encoded byte equals the reference bit layout");
    vassert!(
        FunctionCode::from_byte(b) == Ok(fc),
        "C09/fc-roundtrip: decode(encode(fc)) == fc for every request/response combination"
    );
    kani::cover!(
        matches!(fc, FunctionCode::Request { req: RequestType::ClockValue, .. }),
        "cover: clock value request"
    );
}

// ==========================================================================================
// C09 — data telegrams
// ==========================================================================================

/// Encode through the real `TelegramTx`, compare with the reference frame, decode back.
/// `L` = maximum payload length with fully symbolic content; `B` = buffer size.
fn data_roundtrip_content<const L: usize, const B: usize>() {
    let h = any_header();
    let payload: [u8; L] = kani::any();
    let pdu_len: usize = kani::any();
    kani::assume(pdu_len <= L);

    let mut buf = [0xAAu8; B];
    let tx = TelegramTx::new(&mut buf);
    let res = tx.send_data_telegram(h.clone(), pdu_len, |b| {
        let mut i = 0;
        while i < pdu_len {
            b[i] = payload[i];
            i += 1;
        }
    });

    let mut expect = [0u8; B];
    let elen = ref_encode(&h, pdu_len, |i| payload[i], &mut expect);

    vassert!(res.bytes_sent() == elen, "C09/len: bytes_sent equals the frame length");
    vassert!(h.telegram_len(pdu_len) == elen, "C09/len: telegram_len equals the frame length");
    let mut i = 0;
    while i < elen {
        vassert!(buf[i] == expect[i], "C09/wire: serialised bytes equal the reference frame");
        i += 1;
    }
    while i < B {
        vassert!(buf[i] == 0xAA, "C09/wire: no byte beyond the frame is written");
        i += 1;
    }

    let want_reply = match h.fc {
        FunctionCode::Request { req, .. } if ref_request_expects_reply(req) => Some(h.da),
        _ => None,
    };
    vassert!(res.expects_reply() == want_reply, "C09/expects-reply: reply expected exactly for acknowledged/answered request services");

    // decode back (with and without trailing bytes)
    let extra: usize = kani::any();
    kani::assume(extra <= B && elen + extra <= B);
    match Telegram::deserialize(&buf[..elen + extra]) {
        Some(Ok((Telegram::Data(t), n))) => {
            vassert!(n == elen, "C09/consumed: decoding consumes exactly the frame");
            vassert!(t.h == h, "C09/roundtrip: decoded header identical");
            vassert!(t.pdu.len() == pdu_len, "C09/roundtrip: decoded payload length identical");
            let mut i = 0;
            while i < pdu_len {
                vassert!(t.pdu[i] == payload[i], "C09/roundtrip: decoded payload identical");
                i += 1;
            }
            vassert!(t.telegram_len() == elen, "C09/len: decoded telegram reports the frame length");
            kani::cover!(buf[0] == SD1, "cover: SD1 frame round-trips");
            kani::cover!(buf[0] == SD3, "cover: SD3 frame round-trips");
            kani::cover!(buf[0] == SD2 && pdu_len == L, "cover: SD2 frame of maximum length round-trips");
            kani::cover!(buf[0] == SD2 && h.dsap.is_some() && h.ssap.is_some(), "cover: SD2 with both SAPs");
        }
        _ => {
            vassert!(false, "C09/roundtrip: an encoded data telegram decodes as a data telegram");
        }
    }
}

#[kani::proof]
#[kani::unwind(23)]
fn c09_data_roundtrip_content_q() {
    // payload <= 8 bytes of symbolic content; frame <= 8+2+9 = 19 bytes; buffer 20
    data_roundtrip_content::<8, 20>();
}

#[kani::proof]
#[kani::unwind(79)]
fn c09_data_roundtrip_content_t() {
    // payload <= 64 bytes of symbolic content; frame <= 64+2+9 = 75; buffer 76
    data_roundtrip_content::<64, 76>();
}

/// All payload lengths up to the frame limit with one symbolic fill byte.
#[kani::proof]
#[kani::unwind(260)]
fn c09_data_roundtrip_all_lengths_t() {
    let h = any_header();
    let fill: u8 = kani::any();
    let pdu_len: usize = kani::any();
    let saps = h.dsap.is_some() as usize + h.ssap.is_some() as usize;
    // frame limit: length byte <= 249
    kani::assume(pdu_len <= 246 && pdu_len + saps + 3 <= 249);

    let mut buf = [0u8; 256];
    let tx = TelegramTx::new(&mut buf);
    let res = tx.send_data_telegram(h.clone(), pdu_len, |b| b.fill(fill));
    let mut expect = [0u8; 256];
    let elen = ref_encode(&h, pdu_len, |_| fill, &mut expect);
    vassert!(res.bytes_sent() == elen, "C09/len: bytes_sent equals the frame length");
    vassert!(h.telegram_len(pdu_len) == elen, "C09/len: telegram_len equals the frame length");
    let mut i = 0;
    while i < elen {
        vassert!(buf[i] == expect[i], "C09/wire: serialised bytes equal the reference frame");
        i += 1;
    }
    match Telegram::deserialize(&buf[..elen]) {
        Some(Ok((Telegram::Data(t), n))) => {
            vassert!(n == elen, "C09/consumed: decoding consumes exactly the frame");
            vassert!(t.h == h, "C09/roundtrip: decoded header identical");
            vassert!(t.pdu.len() == pdu_len, "C09/roundtrip: decoded payload length identical");
            let mut i = 0;
            while i < pdu_len {
                vassert!(t.pdu[i] == fill, "C09/roundtrip: decoded payload identical");
                i += 1;
            }
            kani::cover!(pdu_len == 246, "cover: 246-byte payload (no SAPs, LE = 249)");
            kani::cover!(pdu_len == 244 && saps == 2, "cover: 244-byte payload with both SAPs");
        }
        _ => vassert!(false, "C09/roundtrip: an encoded data telegram decodes as a data telegram"),
    }
}

/// One concrete payload length and SAP presence (addresses, SAP values, function code and one
/// fill byte symbolic): the boundary lengths up to the frame limit are checked individually; with
/// concrete length and layout every loop and every buffer index is constant, which keeps the
/// 246-byte case cheap.
fn roundtrip_len<const L: usize, const D: bool, const S: bool>() {
    let da: u8 = kani::any();
    let sa: u8 = kani::any();
    kani::assume(da <= 127 && sa <= 127);
    let h = DataTelegramHeader {
        da,
        sa,
        dsap: if D { Some(kani::any()) } else { None },
        ssap: if S { Some(kani::any()) } else { None },
        fc: any_function_code(),
    };
    // concrete payload content: the content only flows through a copy and the additive checksum
    // (symbolic content up to 64 bytes is the subject of c09_data_roundtrip_content_*)
    let fill: u8 = 0xA5;
    let mut buf = [0u8; 256];
    let res = TelegramTx::new(&mut buf).send_data_telegram(h.clone(), L, |b| b.fill(fill));
    let mut expect = [0u8; 256];
    let elen = ref_encode(&h, L, |_| fill, &mut expect);
    vassert!(res.bytes_sent() == elen && h.telegram_len(L) == elen, "C09/len: bytes_sent and telegram_len equal the frame length");
    let mut i = 0;
    while i < elen {
        vassert!(buf[i] == expect[i], "C09/wire: serialised bytes equal the reference frame");
        i += 1;
    }
    match Telegram::deserialize(&buf[..elen]) {
        Some(Ok((Telegram::Data(t), n))) => {
            vassert!(n == elen && t.h == h && t.pdu.len() == L, "C09/roundtrip: decoded header and payload length identical, exactly the frame consumed");
            let mut i = 0;
            while i < L {
                vassert!(t.pdu[i] == fill, "C09/roundtrip: decoded payload identical");
                i += 1;
            }
            kani::cover!(true, "cover: frame round-trips");
        }
        _ => vassert!(false, "C09/roundtrip: an encoded data telegram decodes as a data telegram"),
    }
}

macro_rules! roundtrip_len_harness {
    ($name:ident, $l:expr, $d:expr, $s:expr) => {
        #[kani::proof]
        #[kani::unwind(258)]
        fn $name() {
            roundtrip_len::<$l, $d, $s>();
        }
    };
}
roundtrip_len_harness!(c09_roundtrip_len_246, 246, false, false);
roundtrip_len_harness!(c09_roundtrip_len_245_dsap, 245, true, false);
roundtrip_len_harness!(c09_roundtrip_len_245_ssap, 245, false, true);
roundtrip_len_harness!(c09_roundtrip_len_244_both, 244, true, true);
roundtrip_len_harness!(c09_roundtrip_len_128_both, 128, true, true);
roundtrip_len_harness!(c09_roundtrip_len_8, 8, false, false);
roundtrip_len_harness!(c09_roundtrip_len_7_dsap, 7, true, false);
roundtrip_len_harness!(c09_roundtrip_len_9, 9, false, false);

/// Full symbolic payload content at a concrete (large) length: closes the gap between the
/// content harnesses (<= 64 bytes) and the boundary-length harnesses (concrete content).
fn roundtrip_content_len<const L: usize, const D: bool, const S: bool>() {
    let da: u8 = kani::any();
    let sa: u8 = kani::any();
    kani::assume(da <= 127 && sa <= 127);
    let h = DataTelegramHeader {
        da,
        sa,
        dsap: if D { Some(kani::any()) } else { None },
        ssap: if S { Some(kani::any()) } else { None },
        fc: any_function_code(),
    };
    let content: [u8; L] = kani::any();
    let mut buf = [0u8; 256];
    let res = TelegramTx::new(&mut buf).send_data_telegram(h.clone(), L, |b| b.copy_from_slice(&content));
    let mut expect = [0u8; 256];
    let elen = ref_encode(&h, L, |i| content[i], &mut expect);
    vassert!(res.bytes_sent() == elen && h.telegram_len(L) == elen, "C09/len: bytes_sent and telegram_len equal the frame length");
    let mut i = 0;
    while i < elen {
        vassert!(buf[i] == expect[i], "C09/wire: serialised bytes equal the reference frame");
        i += 1;
    }
    match Telegram::deserialize(&buf[..elen]) {
        Some(Ok((Telegram::Data(t), n))) => {
            vassert!(n == elen && t.h == h && t.pdu.len() == L, "C09/roundtrip: decoded header and payload length identical, exactly the frame consumed");
            let mut i = 0;
            while i < L {
                vassert!(t.pdu[i] == content[i], "C09/roundtrip: decoded payload identical");
                i += 1;
            }
            kani::cover!(true, "cover: frame round-trips");
        }
        _ => vassert!(false, "C09/roundtrip: an encoded data telegram decodes as a data telegram"),
    }
}

#[kani::proof]
#[kani::unwind(258)]
fn c09_roundtrip_content_len_246_t() {
    roundtrip_content_len::<246, false, false>();
}

#[kani::proof]
#[kani::unwind(258)]
fn c09_roundtrip_content_len_244_both_t() {
    roundtrip_content_len::<244, true, true>();
}

#[kani::proof]
#[kani::unwind(140)]
fn c09_roundtrip_content_len_100_dsap() {
    roundtrip_content_len::<100, true, false>();
}

/// Structural sweep without payload content: every length selects the right start delimiter.
#[kani::proof]
#[kani::unwind(4)]
fn c09_frame_length_arithmetic() {
    let h = any_header();
    let pdu_len: usize = kani::any();
    let saps = h.dsap.is_some() as usize + h.ssap.is_some() as usize;
    kani::assume(pdu_len <= 246 && pdu_len + saps + 3 <= 249);
    let n = h.telegram_len(pdu_len);
    vassert!(n == ref_frame_len(&h, pdu_len), "C09/len: telegram_len equals the frame length for every length up to the limit");
    kani::cover!(n == 255, "cover: maximum frame (255 bytes)");
    kani::cover!(n == 6, "cover: SD1");
    kani::cover!(n == 14, "cover: SD3");
}

#[kani::proof]
#[kani::unwind(5)]
fn c09_token_and_sc_roundtrip() {
    let da: u8 = kani::any();
    let sa: u8 = kani::any();
    let mut buf = [0u8; 8];
    let r = TelegramTx::new(&mut buf).send_token_telegram(da, sa);
    vassert!(r.bytes_sent() == 3, "C09/len: token is three bytes");
    vassert!(r.expects_reply().is_none(), "C09/expects-reply: token expects no reply");
    vassert!(buf[0] == SD4 && buf[1] == da && buf[2] == sa, "C09/wire: token frame is SD4 DA SA");
    let extra: usize = kani::any();
    kani::assume(extra <= 5);
    match Telegram::deserialize(&buf[..3 + extra]) {
        Some(Ok((Telegram::Token(t), n))) => {
            vassert!(n == 3 && t.da == da && t.sa == sa, "C09/roundtrip: token decodes identically");
            vassert!(t.telegram_len() == 3, "C09/len: token length");
            kani::cover!(da > 127, "cover: token with out-of-range address");
        }
        _ => vassert!(false, "C09/roundtrip: token decodes as token"),
    }

    let mut buf = [0u8; 8];
    let r = TelegramTx::new(&mut buf).send_short_confirmation();
    vassert!(r.bytes_sent() == 1 && r.expects_reply().is_none(), "C09/len: SC is one byte");
    vassert!(buf[0] == SC, "C09/wire: SC frame is E5");
    match Telegram::deserialize(&buf[..1 + extra]) {
        Some(Ok((Telegram::ShortConfirmation(s), n))) => {
            vassert!(n == 1 && s.telegram_len() == 1, "C09/roundtrip: SC decodes identically");
        }
        _ => vassert!(false, "C09/roundtrip: SC decodes as SC"),
    }
}

// ==========================================================================================
// C10 — decoder
// ==========================================================================================

/// Length a frame beginning with these bytes announces (reference; `usize::MAX` = not yet known,
/// 0 = never asks for more).
fn ref_announced(buf: &[u8]) -> usize {
    if buf.len() == 0 {
        return 1;
    }
    match buf[0] {
        SC => 0,
        SD4 => 3,
        SD1 => 6,
        SD3 => 14,
        SD2 => {
            if buf.len() >= 2 {
                usize::from(buf[1]) + 6
            } else {
                usize::MAX
            }
        }
        _ => 0,
    }
}

fn decoder_total<const N: usize>() {
    let buf: [u8; N] = kani::any();
    let len: usize = kani::any();
    kani::assume(len <= N);
    let input = &buf[..len];
    match Telegram::deserialize(input) {
        None => {
            // Reading (DESIGN §4 C10): "proper prefix of a frame of the announced length" = shorter
            // than the announced length, or than the 6 bytes a data frame needs to announce one.
            let need = ref_announced(input);
            vassert!(len < need, "C10/more-only-for-prefix: 'need more data' only for an input shorter than the announced frame");
            kani::cover!(len >= 6, "cover: need-more on a data frame with complete header");
        }
        Some(Err(())) => {
            kani::cover!(len == N, "cover: full-size buffer rejected");
        }
        Some(Ok((t, n))) => {
            vassert!(n >= 1 && n <= len, "C10/in-bounds: reported length lies inside the input");
            // The decoder also accepts the non-canonical SD2 encodings of LE=3 / LE=11 (which the
            // encoder would send as SD1 / SD3); for those the canonical length differs (non-finding).
            let noncanonical = input[0] == SD2 && (input[1] == 3 || input[1] == 11);
            if !noncanonical {
                vassert!(n == t.telegram_len(), "C10/in-bounds: reported length equals the telegram's own length");
            }
            if let Telegram::Data(d) = &t {
                let base = input.as_ptr() as usize;
                let p = d.pdu.as_ptr() as usize;
                vassert!(p >= base && p + d.pdu.len() <= base + n, "C10/in-bounds: payload lies inside the consumed frame");
                kani::cover!(d.pdu.len() + 9 + 2 >= N, "cover: largest data frame for this buffer accepted");
            }
            kani::cover!(matches!(t, Telegram::Token(_)), "cover: token accepted");
            kani::cover!(matches!(t, Telegram::ShortConfirmation(_)), "cover: SC accepted");
        }
    }
}

#[kani::proof]
#[kani::unwind(34)]
fn c10_decoder_total_q() {
    decoder_total::<32>();
}

#[kani::proof]
#[kani::unwind(264)]
fn c10_decoder_total_t() {
    decoder_total::<262>();
}

/// Acceptance conditions of a data frame, on an arbitrary buffer.
fn decoder_accept<const N: usize>() {
    let buf: [u8; N] = kani::any();
    let len: usize = kani::any();
    kani::assume(len <= N);
    let input = &buf[..len];
    if let Some(Ok((Telegram::Data(d), n))) = Telegram::deserialize(input) {
        let sd = input[0];
        vassert!(sd == SD1 || sd == SD2 || sd == SD3, "C10/accept-sd: first start delimiter is SD1, SD2 or SD3");
        let start = if sd == SD2 {
            vassert!(input[1] == input[2], "C10/accept-le: both length bytes agree");
            vassert!(input[1] >= 3, "C10/accept-le: length byte covers DA SA FC");
            vassert!(usize::from(input[1]) + 6 == n, "C10/accept-le: frame length follows from the length byte");
            vassert!(input[3] == SD2, "C10/accept-sd2: the repeated start delimiter is SD2");
            4
        } else {
            vassert!(n == if sd == SD1 { 6 } else { 14 }, "C10/accept-le: fixed frame length");
            1
        };
        let mut sum = 0u8;
        let mut i = start;
        while i < n - 2 {
            sum = sum.wrapping_add(input[i]);
            i += 1;
        }
        vassert!(input[n - 2] == sum, "C10/accept-fcs: checksum is the sum of DA..DU");
        vassert!(input[n - 1] == ED, "C10/accept-ed: end delimiter");
        vassert!(d.h.da == input[start] & 0x7f && d.h.sa == input[start + 1] & 0x7f, "C10/accept-fields: addresses are the address octets without the extension bit");
        vassert!(d.h.dsap.is_some() == (input[start] & 0x80 != 0) && d.h.ssap.is_some() == (input[start + 1] & 0x80 != 0), "C10/accept-fields: SAP presence follows the extension bits");
        kani::cover!(sd == SD2, "cover: SD2 accepted");
        kani::cover!(sd == SD3, "cover: SD3 accepted");
    }
}

#[kani::proof]
#[kani::unwind(26)]
fn c10_decoder_accept_q() {
    decoder_accept::<24>();
}

#[kani::proof]
#[kani::unwind(82)]
fn c10_decoder_accept_t() {
    decoder_accept::<80>();
}

/// A definite verdict on a prefix is never contradicted by the verdict on a longer input.
fn decoder_prefix_consistency<const N: usize>() {
    let buf: [u8; N] = kani::any();
    let i: usize = kani::any();
    let j: usize = kani::any();
    kani::assume(i <= j && j <= N);
    let ri = Telegram::deserialize(&buf[..i]);
    let rj = Telegram::deserialize(&buf[..j]);
    match ri {
        None => {}
        Some(Err(())) => {
            vassert!(matches!(rj, Some(Err(()))), "C10/prefix: a rejected prefix stays rejected");
            kani::cover!(j > i, "cover: rejected prefix with longer continuation");
        }
        Some(Ok((ti, ni))) => match rj {
            Some(Ok((tj, nj))) => {
                vassert!(ni == nj, "C10/prefix: an accepted prefix yields the same length on a longer input");
                let same = match (&ti, &tj) {
                    (Telegram::Token(a), Telegram::Token(b)) => a == b,
                    (Telegram::ShortConfirmation(_), Telegram::ShortConfirmation(_)) => true,
                    (Telegram::Data(a), Telegram::Data(b)) => {
                        let mut eq = a.h == b.h && a.pdu.len() == b.pdu.len();
                        if eq {
                            let mut k = 0;
                            while k < a.pdu.len() {
                                eq = eq && a.pdu[k] == b.pdu[k];
                                k += 1;
                            }
                        }
                        eq
                    }
                    _ => false,
                };
                vassert!(same, "C10/prefix: an accepted prefix yields the same telegram on a longer input");
                kani::cover!(j > i && matches!(ti, Telegram::Data(_)), "cover: accepted data frame followed by more bytes");
            }
            _ => vassert!(false, "C10/prefix: an accepted prefix stays accepted"),
        },
    }
}

#[kani::proof]
#[kani::unwind(22)]
fn c10_decoder_prefix_q() {
    decoder_prefix_consistency::<20>();
}

#[kani::proof]
#[kani::unwind(66)]
fn c10_decoder_prefix_t() {
    decoder_prefix_consistency::<64>();
}

/// Single-byte substitution in a frame produced by the real encoder is never decoded as a
/// (different) telegram.  `L` = max payload, `B` = buffer.
fn single_byte_corruption<const L: usize, const B: usize>() {
    let h = any_header();
    let payload: [u8; L] = kani::any();
    let pdu_len: usize = kani::any();
    kani::assume(pdu_len <= L);
    let mut buf = [0u8; B];
    let n = TelegramTx::new(&mut buf)
        .send_data_telegram(h.clone(), pdu_len, |b| {
            let mut i = 0;
            while i < pdu_len {
                b[i] = payload[i];
                i += 1;
            }
        })
        .bytes_sent();
    let pos: usize = kani::any();
    let val: u8 = kani::any();
    kani::assume(pos < n);
    kani::assume(val != buf[pos]);
    // Reading note (DESIGN §4 C10): replacing the start delimiter by another *valid* start
    // delimiter is a multi-bit error the frame format itself does not protect; not demanded.
    if pos == 0 {
        kani::assume(val != SD1 && val != SD2 && val != SD3 && val != SD4 && val != SC);
    }
    buf[pos] = val;
    match Telegram::deserialize(&buf[..n]) {
        None => {}
        Some(Err(())) => {
            kani::cover!(pos == 1 && n > 14, "cover: corrupted length byte rejected");
            kani::cover!(pos == n - 1, "cover: corrupted end delimiter rejected");
        }
        Some(Ok(_)) => {
            vassert!(false, "C10/single-byte: a frame with one substituted byte is never accepted");
        }
    }
}

#[kani::proof]
#[kani::unwind(23)]
fn c10_single_byte_corruption_q() {
    single_byte_corruption::<8, 20>();
}

#[kani::proof]
#[kani::unwind(47)]
fn c10_single_byte_corruption_t() {
    single_byte_corruption::<32, 44>();
}

/// Short confirmation: one byte, any substitution is not decoded as another telegram.
#[kani::proof]
#[kani::unwind(8)]
fn c10_sc_corruption() {
    let val: u8 = kani::any();
    kani::assume(val != SC);
    let buf = [val];
    match Telegram::deserialize(&buf) {
        Some(Ok(_)) => vassert!(false, "C10/single-byte: a corrupted SC is never accepted"),
        _ => {
            kani::cover!(val == SD4, "cover: SC corrupted into a token start asks for more");
        }
    }
}
