// L2 harnesses: one poll() of the FDL active station from a symbolic state (src/fdl/active.rs),
// as crate::fdl::active::verif.  Serves C01, C02, C05, C06, C11, C12, C13, C15.
//
// Shape (DESIGN §2.1, §3): the pre-state is symbolic under the representation invariant
// `inv_fdl`; one real poll_inner() runs against a harness PHY with symbolic content and symbolic
// `now`; labelled assertions compare the outcome with reference rules written from the FDL
// state machine description; `inv_fdl` is asserted again (inductive).  TokenRing's three
// bitvec-heavy methods are replaced by the u128 reference model (stubs operate on the real
// struct; L1 harnesses in fdl_token_ring.rs relate model and real code).

use super::*;
use crate::fdl::token_ring::verif::{any_model, from_model, ring_inv, to_model, MLas, Model};
use crate::fdl::{FdlApplication, Parameters};
use crate::verif_support::*;

pub(crate) type Inst = crate::time::Instant;

/// Harness bus parameters: fixed baud rate and slot time (the time lemmas in fdl_parameters.rs
/// cover all baud rates and slot times); everything else symbolic within the builder's ranges.
pub(crate) const BAUD: crate::Baudrate = crate::Baudrate::B500000;
pub(crate) const RATE: u64 = 500_000;
pub(crate) const SLOT_BITS: u16 = 300;

pub(crate) fn any_params() -> Parameters {
    let address: u8 = kani::any();
    let hsa: u8 = kani::any();
    kani::assume(address <= 125 && hsa > address && hsa <= 126);
    let gap: u8 = kani::any();
    kani::assume(gap >= 1 && gap <= 100);
    Parameters {
        address,
        baudrate: BAUD,
        slot_bits: SLOT_BITS,
        token_rotation_bits: 32436,
        gap_wait_rotations: gap,
        highest_station_address: hsa,
        ..Default::default()
    }
}

pub(crate) const T_MAX: i64 = 1 << 40;

pub(crate) fn any_instant() -> Inst {
    let t: i64 = kani::any();
    kani::assume(t >= 0 && t < T_MAX);
    Inst::from_micros(t)
}

pub(crate) fn any_gap_state(p: &Parameters) -> GapState {
    if kani::any() {
        let rotation_count: u8 = kani::any();
        kani::assume(rotation_count <= p.gap_wait_rotations + 1);
        GapState::Waiting { rotation_count }
    } else {
        let current_address: u8 = kani::any();
        kani::assume(current_address < p.highest_station_address);
        GapState::DoPoll { current_address }
    }
}

pub(crate) fn any_attempt() -> PassTokenAttempt {
    match kani::any::<u8>() {
        0 => PassTokenAttempt::First,
        1 => PassTokenAttempt::Second,
        _ => PassTokenAttempt::Third,
    }
}

pub(crate) fn any_opt_addr() -> Option<u8> {
    if kani::any() {
        let a: u8 = kani::any();
        kani::assume(a <= 127);
        Some(a)
    } else {
        None
    }
}

/// Station in the given state, everything else symbolic.  `napps` = number of applications the
/// station is polled with (bounds `next_application`).
pub(crate) fn any_station(p: Parameters, state: State, napps: usize) -> FdlActiveStation {
    let ring = any_model(p.address);
    let next_application: usize = kani::any();
    kani::assume(next_application < napps || (napps == 0 && next_application == 0));
    let pending_bytes: usize = kani::any();
    kani::assume(pending_bytes <= 300);
    FdlActiveStation {
        token_ring: from_model(&ring),
        connectivity_state: ConnectivityState::Online,
        gap_state: any_gap_state(&p),
        state,
        last_bus_activity: if kani::any() { Some(any_instant()) } else { None },
        pending_bytes,
        last_token_time: any_instant(),
        end_token_hold_time: any_instant(),
        next_application,
        p,
    }
}

/// Representation invariant of the station (assumed before, asserted after every step).
pub(crate) fn inv_fdl(s: &FdlActiveStation, napps: usize) -> bool {
    let p = &s.p;
    let params_ok = p.address <= 125
        && p.highest_station_address > p.address
        && p.highest_station_address <= 126
        && p.gap_wait_rotations >= 1
        && p.gap_wait_rotations <= 100;
    let ring_ok = ring_inv(&s.token_ring) && s.token_ring.this_station() == p.address;
    let gap_ok = match s.gap_state {
        GapState::Waiting { rotation_count } => rotation_count <= p.gap_wait_rotations + 1,
        GapState::DoPoll { current_address } => current_address < p.highest_station_address,
    };
    let polled = |a: u8| a != p.address && s.gap_state == GapState::DoPoll { current_address: a };
    let app_ok = s.next_application < napps || (napps == 0 && s.next_application == 0);
    let state_ok = match &s.state {
        State::Offline => s.connectivity_state == ConnectivityState::Offline,
        State::PassiveIdle => false,
        State::ListenToken { collision_count, .. } => *collision_count <= 1,
        State::ActiveIdle { collision_count, .. } => *collision_count <= 1,
        State::UseToken { data, .. } => data.first_app.map(|f| f < napps).unwrap_or(true) && napps_ok(data, napps),
        State::AwaitDataResponse { data, .. } => napps > 0 && data.first_app.map(|f| f < napps).unwrap_or(true),
        State::ClaimToken { step: ClaimTokenStep::ScanAwaitResponse { address } } => polled(*address),
        State::ClaimToken { .. } => true,
        State::PassToken { .. } => true,
        State::CheckTokenPass { .. } => true,
        State::AwaitStatusResponse { address } => polled(*address),
    };
    let conn_ok = match s.connectivity_state {
        ConnectivityState::Online => true,
        ConnectivityState::Offline => matches!(s.state, State::Offline),
        ConnectivityState::Passive => false,
    };
    let t_ok = |t: Inst| t.total_micros() >= 0 && t.total_micros() < T_MAX + 10_000_000;
    let time_ok = s.last_bus_activity.map(t_ok).unwrap_or(true) && t_ok(s.last_token_time);
    params_ok && ring_ok && gap_ok && app_ok && state_ok && conn_ok && time_ok
}

fn napps_ok(_data: &UseTokenData, _napps: usize) -> bool {
    true
}

// ==========================================================================================
// C12: pure GAP lemma on next_gap_poll
// ==========================================================================================

/// Is `a` inside the station's own GAP: strictly between TS and NS, cyclically, below HSA?
pub(crate) fn ref_in_gap(a: u8, ts: u8, ns: u8, hsa: u8) -> bool {
    if a >= hsa || a == ts {
        return false;
    }
    if ns > ts {
        a > ts && a < ns
    } else if ns < ts {
        a > ts || a < ns
    } else {
        true
    }
}

#[kani::proof]
fn c12_gap_lemma() {
    let p = any_params();
    let mut st = FdlActiveStation::new(p.clone());
    // NS can be any address the ring view can hold (incl. a station at or above HSA)
    let ring = any_model(p.address);
    st.token_ring = from_model(&ring);
    let (ts, ns, hsa) = (p.address, ring.ns, p.highest_station_address);
    let current: u8 = kani::any();
    kani::assume(current < hsa);

    let next = st.next_gap_poll(current);

    let succ = if current == hsa - 1 { 0 } else { current + 1 };
    match next {
        GapState::DoPoll { current_address: a } => {
            assert!(a != ts, "C12/gap-not-self: the station never polls itself");
            assert!(a < hsa, "C12/gap-below-hsa: only addresses below HSA are polled");
            assert!(ref_in_gap(a, ts, ns, hsa), "C12/gap-range: a polled address lies strictly between this station and its successor (cyclically)");
            assert!(a == succ, "C12/gap-no-skip: the sweep advances to the cyclic successor of the last polled address");
            kani::cover!(a < ts && ns < ts, "cover: wrap-around GAP polled below TS");
            kani::cover!(ns == ts, "cover: whole ring is GAP when alone");
        }
        GapState::Waiting { rotation_count } => {
            assert!(rotation_count == 0, "C12/gap-wait: a finished sweep starts the waiting period at zero");
            assert!(!ref_in_gap(succ, ts, ns, hsa), "C12/gap-complete: the sweep ends only when the next address is outside the GAP");
            kani::cover!(current == ns && ns + 1 == ts, "cover: successor discovered at TS-1 ends the sweep");
            kani::cover!(current == ns && ns == hsa - 1 && ns > ts, "cover: successor discovered at HSA-1 ends the sweep");
        }
    }
}
