// L2 harnesses: one poll() of the FDL active station from a symbolic state (src/fdl/active.rs),
// as crate::fdl::active::verif.  Serves C01, C02, C05, C06, C11, C12, C13, C15.
//
// Shape (DESIGN §2.1, §3): the pre-state is symbolic under the representation invariant
// `inv_fdl`; one real poll_inner() runs against a harness PHY with symbolic content and symbolic
// `now`; labelled assertions compare the outcome with reference rules written from the FDL
// state machine description; `inv_fdl` is asserted again (inductive).  TokenRing's three
// bitvec-heavy methods are replaced by the u128 reference model (stubs operate on the real
// struct; L1 harnesses in fdl_token_ring.rs relate model and real code).

use super::*;
use crate::fdl::token_ring::verif::{any_las_state, any_model, from_model, las_of, to_model, MLas, Model};
use crate::fdl::{FdlApplication, Parameters};
use crate::verif_support::*;

pub(crate) type Inst = crate::time::Instant;

/// Harness bus parameters: fixed baud rate and slot time (the time lemmas in fdl_parameters.rs
/// cover all baud rates and slot times); everything else symbolic within the builder's ranges.
pub(crate) const SLOT_BITS: u16 = 300;

/// Baud rate of the harness bus: concrete per harness (500 kbit/s unless the harness selects
/// another one with `use_baud`), so that every time conversion constant-folds.
pub(crate) static mut H_BAUD: crate::Baudrate = crate::Baudrate::B500000;

pub(crate) fn use_baud(b: crate::Baudrate) {
    unsafe {
        H_BAUD = b;
    }
}

pub(crate) fn baud() -> crate::Baudrate {
    unsafe { H_BAUD }
}

/// bit/s of the harness baud rate (reference table, not the crate's)
pub(crate) fn rate() -> u64 {
    match baud() {
        crate::Baudrate::B9600 => 9_600,
        crate::Baudrate::B19200 => 19_200,
        crate::Baudrate::B31250 => 31_250,
        crate::Baudrate::B45450 => 45_450,
        crate::Baudrate::B93750 => 93_750,
        crate::Baudrate::B187500 => 187_500,
        crate::Baudrate::B500000 => 500_000,
        crate::Baudrate::B1500000 => 1_500_000,
        crate::Baudrate::B3000000 => 3_000_000,
        crate::Baudrate::B6000000 => 6_000_000,
        crate::Baudrate::B12000000 => 12_000_000,
    }
}

/// duration of `bits` bit times in whole microseconds, rounded down (the stack's clock resolution)
pub(crate) fn bits_us(bits: u64) -> i64 {
    (bits * 1_000_000 / rate()) as i64
}

pub(crate) fn any_params() -> Parameters {
    let address: u8 = kani::any();
    let hsa: u8 = kani::any();
    kani::assume(address <= 125 && hsa > address && hsa <= 126);
    let gap: u8 = kani::any();
    kani::assume(gap >= 1 && gap <= 100);
    Parameters {
        address,
        baudrate: baud(),
        slot_bits: SLOT_BITS,
        token_rotation_bits: 32436,
        gap_wait_rotations: gap,
        highest_station_address: hsa,
        ..Default::default()
    }
}

pub(crate) const T_MAX: i64 = 1 << 40;

pub(crate) fn any_instant() -> Inst {
    let t: i64 = kani::any();
    kani::assume(t >= 0 && t < T_MAX);
    Inst::from_micros(t)
}

/// How the TokenRing mutators are stubbed in a station step harness.
#[derive(Clone, Copy, PartialEq, Eq)]
pub(crate) enum RingMode {
    /// record the call, leave the ring in an ARBITRARY new view (used for the verdict: the
    /// station logic is checked for every ring evolution)
    Havoc,
    /// record the call, apply the precise u128 reference model to a SMALL consistent ring
    /// (LAS = {TS?, NS, PS, one more station}); used by the `*__replay` twins, whose counterexamples are faithful
    /// for the native replay against the real bitvec TokenRing
    Small,
}
pub(crate) static mut RING_MODE: RingMode = RingMode::Havoc;
pub(crate) fn ring_mode() -> RingMode {
    unsafe { RING_MODE }
}
pub(crate) fn use_small_ring() {
    unsafe {
        RING_MODE = RingMode::Small;
    }
}

/// Ring view as the station logic sees it: LAS state, NS, PS.  In `Havoc` mode the LAS bits are
/// irrelevant (only TokenRing reads them, and its mutators are stubbed); in `Small` mode the LAS
/// is a consistent small ring {TS?, NS, PS, one more} whose cyclic neighbours of TS are exactly NS
/// and PS.
pub(crate) fn any_ring_view(ts: u8) -> Model {
    let ns: u8 = kani::any();
    let ps: u8 = kani::any();
    kani::assume(ns <= 125 && ps <= 125);
    let las = if ring_mode() == RingMode::Small {
        let with_ts: bool = kani::any();
        // one more station somewhere, so that a ring of up to four stations is covered
        let extra: u8 = kani::any();
        kani::assume(extra <= 125);
        let las = (1u128 << ns) | (1u128 << ps) | (1u128 << extra) | if with_ts { 1u128 << ts } else { 0 };
        kani::assume(Model::neighbours(las, ts) == (ns, ps));
        las
    } else {
        0
    };
    Model { las, state: any_las_state(), ts, ns, ps }
}

pub(crate) fn any_gap_state(p: &Parameters) -> GapState {
    if kani::any() {
        let rotation_count: u8 = kani::any();
        kani::assume(rotation_count <= p.gap_wait_rotations + 1);
        GapState::Waiting { rotation_count }
    } else {
        let current_address: u8 = kani::any();
        kani::assume(current_address < p.highest_station_address);
        GapState::DoPoll { current_address }
    }
}

pub(crate) fn any_attempt() -> PassTokenAttempt {
    match kani::any::<u8>() {
        0 => PassTokenAttempt::First,
        1 => PassTokenAttempt::Second,
        _ => PassTokenAttempt::Third,
    }
}

pub(crate) fn any_opt_addr() -> Option<u8> {
    if kani::any() {
        let a: u8 = kani::any();
        kani::assume(a <= 127);
        Some(a)
    } else {
        None
    }
}

/// Station in the given state, everything else symbolic.  `napps` = number of applications the
/// station is polled with (bounds `next_application`).
pub(crate) fn any_station(p: Parameters, state: State, napps: usize) -> FdlActiveStation {
    let ring = any_ring_view(p.address);
    let next_application: usize = kani::any();
    kani::assume(next_application < napps || (napps == 0 && next_application == 0));
    let pending_bytes: usize = kani::any();
    kani::assume(pending_bytes <= 300);
    FdlActiveStation {
        token_ring: from_model(&ring),
        connectivity_state: ConnectivityState::Online,
        gap_state: any_gap_state(&p),
        state,
        last_bus_activity: if kani::any() { Some(any_instant()) } else { None },
        pending_bytes,
        last_token_time: any_instant(),
        end_token_hold_time: any_instant(),
        next_application,
        p,
    }
}

/// Representation invariant of the station (assumed before, asserted after every step).
pub(crate) fn inv_fdl(s: &FdlActiveStation, napps: usize) -> bool {
    let p = &s.p;
    let params_ok = p.address <= 125
        && p.highest_station_address > p.address
        && p.highest_station_address <= 126
        && p.gap_wait_rotations >= 1
        && p.gap_wait_rotations <= 100;
    // NS/PS being the cyclic neighbours of TS in the LAS is TokenRing's own invariant (L1, private
    // fields only written by its methods); the station logic only needs valid addresses.
    let ring_ok = s.token_ring.this_station() == p.address && s.token_ring.next_station() <= 125 && s.token_ring.previous_station() <= 125;
    let gap_ok = match s.gap_state {
        GapState::Waiting { rotation_count } => rotation_count <= p.gap_wait_rotations + 1,
        GapState::DoPoll { current_address } => current_address < p.highest_station_address,
    };
    let polled = |a: u8| a != p.address && s.gap_state == GapState::DoPoll { current_address: a };
    let app_ok = s.next_application < napps || (napps == 0 && s.next_application == 0);
    let state_ok = match &s.state {
        State::Offline => s.connectivity_state == ConnectivityState::Offline,
        State::PassiveIdle => false,
        State::ListenToken { collision_count, .. } => *collision_count <= 1,
        State::ActiveIdle { collision_count, .. } => *collision_count <= 1,
        State::UseToken { data, .. } => data.first_app.map(|f| f < napps).unwrap_or(true) && napps_ok(data, napps),
        State::AwaitDataResponse { data, .. } => napps > 0 && data.first_app.map(|f| f < napps).unwrap_or(true),
        State::ClaimToken { step: ClaimTokenStep::ScanAwaitResponse { address } } => polled(*address),
        State::ClaimToken { .. } => true,
        State::PassToken { .. } => true,
        State::CheckTokenPass { .. } => s.token_ring.next_station() != p.address,
        State::AwaitStatusResponse { address } => polled(*address),
    };
    let conn_ok = match s.connectivity_state {
        ConnectivityState::Online => true,
        ConnectivityState::Offline => matches!(s.state, State::Offline),
        ConnectivityState::Passive => false,
    };
    let t_ok = |t: Inst| t.total_micros() >= 0 && t.total_micros() < T_MAX + 10_000_000;
    let time_ok = s.last_bus_activity.map(t_ok).unwrap_or(true) && t_ok(s.last_token_time);
    params_ok && ring_ok && gap_ok && app_ok && state_ok && conn_ok && time_ok
}

fn napps_ok(_data: &UseTokenData, _napps: usize) -> bool {
    true
}

// ==========================================================================================
// C12: pure GAP lemma on next_gap_poll
// ==========================================================================================

/// Is `a` inside the station's own GAP: strictly between TS and NS, cyclically, below HSA?
pub(crate) fn ref_in_gap(a: u8, ts: u8, ns: u8, hsa: u8) -> bool {
    if a >= hsa || a == ts {
        return false;
    }
    if ns > ts {
        a > ts && a < ns
    } else if ns < ts {
        a > ts || a < ns
    } else {
        true
    }
}

#[kani::proof]
#[kani::unwind(4)]
fn c12_gap_lemma() {
    let p = any_params();
    let mut st = FdlActiveStation::new(p.clone());
    // NS can be any address the ring view can hold (incl. a station at or above HSA)
    let ring = any_model(p.address);
    st.token_ring = from_model(&ring);
    let (ts, ns, hsa) = (p.address, ring.ns, p.highest_station_address);
    let current: u8 = kani::any();
    kani::assume(current < hsa);

    let next = st.next_gap_poll(current);

    let succ = if current == hsa - 1 { 0 } else { current + 1 };
    match next {
        GapState::DoPoll { current_address: a } => {
            vassert!(a != ts, "C12/gap-not-self: the station never polls itself");
            vassert!(a < hsa, "C12/gap-below-hsa: only addresses below HSA are polled");
            vassert!(ref_in_gap(a, ts, ns, hsa), "C12/gap-range: a polled address lies strictly between this station and its successor (cyclically)");
            vassert!(a == succ, "C12/gap-no-skip: the sweep advances to the cyclic successor of the last polled address");
            kani::cover!(a < ts && ns < ts, "cover: wrap-around GAP polled below TS");
            kani::cover!(ns == ts, "cover: whole ring is GAP when alone");
        }
        GapState::Waiting { rotation_count } => {
            vassert!(rotation_count == 0, "C12/gap-wait: a finished sweep starts the waiting period at zero");
            vassert!(!ref_in_gap(succ, ts, ns, hsa), "C12/gap-complete: the sweep ends only when the next address is outside the GAP");
            kani::cover!(current == ns && ns + 1 == ts, "cover: successor discovered at TS-1 ends the sweep");
            kani::cover!(current == ns && ns == hsa - 1 && ns > ts, "cover: successor discovered at HSA-1 ends the sweep");
        }
    }
}


// ==========================================================================================
// one-step machinery
// ==========================================================================================

/// Telegram-level PHY used by the step harnesses: up to 2 buffered telegrams (payload <= 3
/// bytes) plus a tail, 16-byte transmit buffer.
pub(crate) type Phy = TPhy<2, 3, 16>;

pub(crate) fn t33_us() -> i64 {
    bits_us(33)
}
pub(crate) fn tslot_us() -> i64 {
    bits_us(SLOT_BITS as u64)
}
pub(crate) fn tto_us(ts: u8) -> i64 {
    // (6 + 2*address) slot times, converted as one bit count
    bits_us(SLOT_BITS as u64 * (6 + 2 * ts as u64))
}

// ---- abstract TokenRing for the station-level harnesses ---------------------------------------
//
// The three mutating TokenRing methods the station calls are replaced by stubs that (1) record
// the call and (2) leave the ring in an arbitrary new view, constrained only by what the L1
// lemmas in fdl_token_ring.rs prove about the real method (invalid addresses are ignored;
// set_next_station(a) makes a the successor; remove_station(a) never leaves a as successor;
// neither of the latter two touches the LAS state).  The station logic is thereby checked for
// EVERY ring evolution, and "the ring view follows exactly the witnessed passes" becomes "the
// station reports exactly these passes to TokenRing, in this order".

#[derive(Clone, Copy, PartialEq, Eq)]
pub(crate) struct RingCall {
    /// 1 witness_token_pass(a, b), 2 set_next_station(a), 3 remove_station(a)
    pub kind: u8,
    pub a: u8,
    pub b: u8,
}

#[derive(Clone, Copy, PartialEq, Eq)]
pub(crate) struct RingView {
    pub state: MLas,
    pub ns: u8,
    pub ps: u8,
}

pub(crate) const MAX_CALLS: usize = 4;
pub(crate) static mut RING_CALLS: [RingCall; MAX_CALLS] = [RingCall { kind: 0, a: 0, b: 0 }; MAX_CALLS];
pub(crate) static mut RING_POST: [RingView; MAX_CALLS] = [RingView { state: MLas::Uninitialized, ns: 0, ps: 0 }; MAX_CALLS];
pub(crate) static mut RING_N: usize = 0;

pub(crate) fn view_of(r: &crate::fdl::TokenRing) -> RingView {
    let m = to_model(r);
    RingView { state: m.state, ns: m.ns, ps: m.ps }
}

fn record(r: &mut crate::fdl::TokenRing, call: RingCall, new: RingView) {
    let m = Model { las: las_of(r), state: new.state, ts: r.this_station(), ns: new.ns, ps: new.ps };
    *r = from_model(&m);
    unsafe {
        vassert!(RING_N < MAX_CALLS, "harness: more TokenRing calls in one poll than the log holds");
        RING_CALLS[RING_N] = call;
        RING_POST[RING_N] = new;
        RING_N += 1;
    }
}

fn any_view() -> RingView {
    let ns: u8 = kani::any();
    let ps: u8 = kani::any();
    kani::assume(ns <= 125 && ps <= 125);
    RingView { state: any_las_state(), ns, ps }
}

fn record_model(r: &mut crate::fdl::TokenRing, call: RingCall, m: &Model) {
    *r = from_model(m);
    unsafe {
        vassert!(RING_N < MAX_CALLS, "harness: more TokenRing calls in one poll than the log holds");
        RING_CALLS[RING_N] = call;
        RING_POST[RING_N] = RingView { state: m.state, ns: m.ns, ps: m.ps };
        RING_N += 1;
    }
}

pub(crate) fn abs_witness_token_pass(r: &mut crate::fdl::TokenRing, sa: crate::Address, da: crate::Address) {
    if ring_mode() == RingMode::Small {
        let mut m = to_model(r);
        m.witness(sa, da);
        record_model(r, RingCall { kind: 1, a: sa, b: da }, &m);
        return;
    }
    let new = if sa > 125 || da > 125 { view_of(r) } else { any_view() };
    record(r, RingCall { kind: 1, a: sa, b: da }, new);
}

pub(crate) fn abs_set_next_station(r: &mut crate::fdl::TokenRing, address: crate::Address) {
    if ring_mode() == RingMode::Small {
        let mut m = to_model(r);
        m.set_next(address);
        record_model(r, RingCall { kind: 2, a: address, b: 0 }, &m);
        return;
    }
    let old = view_of(r);
    let mut new = any_view();
    new.state = old.state;
    kani::assume(new.ns == address || address > 125);
    record(r, RingCall { kind: 2, a: address, b: 0 }, new);
}

pub(crate) fn abs_remove_station(r: &mut crate::fdl::TokenRing, address: crate::Address) {
    if ring_mode() == RingMode::Small {
        let mut m = to_model(r);
        m.remove(address);
        record_model(r, RingCall { kind: 3, a: address, b: 0 }, &m);
        return;
    }
    let old = view_of(r);
    let mut new = any_view();
    new.state = old.state;
    kani::assume(new.ns != address || address == r.this_station());
    record(r, RingCall { kind: 3, a: address, b: 0 }, new);
}

// ---- reading the call log ------------------------------------------------------------------
//
// Under Kani the stubs above fill the log.  In a NATIVE replay (`cargo kani playback`, cfg(test))
// no stub is applied: the real bitvec TokenRing runs and the log stays empty.  The oracles
// therefore never index the log directly but go through `Expect`: under Kani it compares the
// recorded calls with the expected ones; natively it applies the expected calls to a shadow copy
// of the precise reference model and finally compares the shadow with the real ring.

#[derive(Clone, Copy, PartialEq, Eq)]
pub(crate) struct Expect {
    k: usize,
    ok: bool,
    shadow: Model,
}

pub(crate) static mut SHADOW0: Model = Model { las: 0, state: MLas::Uninitialized, ts: 0, ns: 0, ps: 0 };

impl Expect {
    /// start from the ring as it was before the poll (recorded by `snapshot`)
    pub fn new() -> Self {
        Expect { k: 0, ok: true, shadow: unsafe { SHADOW0 } }
    }

    /// the next TokenRing call must be this one; returns the ring view after it
    pub fn call(&mut self, kind: u8, a: u8, b: u8) -> RingView {
        if cfg!(test) {
            match kind {
                1 => self.shadow.witness(a, b),
                2 => self.shadow.set_next(a),
                _ => self.shadow.remove(a),
            }
            self.k += 1;
            RingView { state: self.shadow.state, ns: self.shadow.ns, ps: self.shadow.ps }
        } else {
            let n = unsafe { RING_N };
            if self.k < n {
                self.ok = self.ok && unsafe { RING_CALLS[self.k] } == RingCall { kind, a, b };
                let v = unsafe { RING_POST[self.k] };
                self.k += 1;
                v
            } else {
                self.ok = false;
                self.k += 1;
                RingView { state: self.shadow.state, ns: self.shadow.ns, ps: self.shadow.ps }
            }
        }
    }

    /// every call expected so far was made as expected (natively: nothing to compare yet)
    pub fn ok_so_far(&self) -> bool {
        if cfg!(test) {
            true
        } else {
            self.ok && self.k <= unsafe { RING_N }
        }
    }

    /// exactly the expected calls were made (natively: the real ring equals the shadow model)
    pub fn done(&self, st: &FdlActiveStation) -> bool {
        if cfg!(test) {
            let r = to_model(&st.token_ring);
            r.las == self.shadow.las && r.state == self.shadow.state && r.ns == self.shadow.ns && r.ps == self.shadow.ps
        } else {
            self.ok && self.k == unsafe { RING_N }
        }
    }

    /// no station was removed from the ring view by a time-out (first call is not a removal)
    pub fn no_removal(&self) -> bool {
        if cfg!(test) {
            true // subsumed natively by `done` (the shadow never removes)
        } else {
            let n = unsafe { RING_N };
            n == 0 || unsafe { RING_CALLS[0] }.kind != 3
        }
    }
}

/// no TokenRing call at all in this poll
pub(crate) fn ring_untouched(st: &FdlActiveStation) -> bool {
    Expect::new().done(st)
}

macro_rules! l2_harness {
    ($(#[$m:meta])* fn $name:ident() $body:block) => {
        #[kani::proof]
        #[kani::stub(crate::fdl::token_ring::TokenRing::witness_token_pass, crate::fdl::active::verif::abs_witness_token_pass)]
        #[kani::stub(crate::fdl::token_ring::TokenRing::set_next_station, crate::fdl::active::verif::abs_set_next_station)]
        #[kani::stub(crate::fdl::token_ring::TokenRing::remove_station, crate::fdl::active::verif::abs_remove_station)]
        #[kani::stub(log::__private_api::loc, crate::verif_support::log_loc_stub)]
        $(#[$m])*
        fn $name() $body
    };
}

fn logging(on: bool) {
    if on {
        log::set_max_level(log::LevelFilter::Trace);
    }
}

/// What the oracles need to see of a harness PHY.
pub(crate) trait PhyView {
    fn v_pending(&self) -> usize;
    fn v_transmitting(&self) -> bool;
    fn v_tx_calls(&self) -> usize;
    fn v_rx_calls(&self) -> usize;
    fn v_tx(&self) -> &[u8];
}

impl<const N: usize, const P: usize, const TXN: usize> PhyView for TPhy<N, P, TXN> {
    fn v_pending(&self) -> usize {
        self.pending()
    }
    fn v_transmitting(&self) -> bool {
        self.transmitting
    }
    fn v_tx_calls(&self) -> usize {
        self.tx_calls
    }
    fn v_rx_calls(&self) -> usize {
        self.rx_calls
    }
    fn v_tx(&self) -> &[u8] {
        &self.tx[..self.tx_len]
    }
}

#[derive(Clone, Copy)]
pub(crate) struct Pre {
    pub lba: Option<Inst>,
    pub pending_bytes: usize,
    pub ring: RingView,
    pub gap: GapState,
    pub last_token_time: Inst,
    pub end_hold: Inst,
    pub next_app: usize,
    pub phy_pending: usize,
    pub phy_transmitting: bool,
    pub ts: u8,
    pub hsa: u8,
    pub gap_wait: u8,
}

pub(crate) fn snapshot(s: &FdlActiveStation, phy: &impl PhyView) -> Pre {
    unsafe {
        SHADOW0 = to_model(&s.token_ring);
    }
    Pre {
        lba: s.last_bus_activity,
        pending_bytes: s.pending_bytes,
        ring: view_of(&s.token_ring),
        gap: s.gap_state,
        last_token_time: s.last_token_time,
        end_hold: s.end_token_hold_time,
        next_app: s.next_application,
        phy_pending: phy.v_pending(),
        phy_transmitting: phy.v_transmitting(),
        ts: s.p.address,
        hsa: s.p.highest_station_address,
        gap_wait: s.p.gap_wait_rotations,
    }
}

impl Pre {
    /// The station does nothing in this poll: a transmission is (believed to be) in progress.
    pub fn busy(&self, now: Inst) -> bool {
        self.phy_transmitting || self.lba.map(|l| now <= l).unwrap_or(false)
    }
    pub fn new_bytes(&self) -> bool {
        self.phy_pending > self.pending_bytes
    }
    /// End of the last bus activity as the station sees it when it decides what to do.
    pub fn lba_eff(&self, now: Inst) -> Inst {
        if self.new_bytes() {
            now
        } else {
            self.lba.unwrap_or(now)
        }
    }
    pub fn silence_us(&self, now: Inst) -> i64 {
        now.total_micros() - self.lba_eff(now).total_micros()
    }
    pub fn pause_over(&self, now: Inst) -> bool {
        self.silence_us(now) > t33_us()
    }
    pub fn slot_expired(&self, now: Inst) -> bool {
        self.silence_us(now) > tslot_us()
    }
    pub fn token_lost(&self, now: Inst) -> bool {
        self.silence_us(now) >= tto_us(self.ts)
    }
}

#[derive(Clone, PartialEq, Eq)]
pub(crate) enum Sent {
    Nothing,
    Token { da: u8, sa: u8 },
    Data(crate::fdl::DataTelegramHeader, usize),
    Other,
}

pub(crate) fn sent(phy: &impl PhyView) -> Sent {
    if phy.v_tx_calls() == 0 {
        return Sent::Nothing;
    }
    let tx = phy.v_tx();
    match crate::fdl::Telegram::deserialize(tx) {
        Some(Ok((crate::fdl::Telegram::Token(t), n))) if n == tx.len() => Sent::Token { da: t.da, sa: t.sa },
        Some(Ok((crate::fdl::Telegram::Data(d), n))) if n == tx.len() => Sent::Data(d.h.clone(), d.pdu.len()),
        _ => Sent::Other,
    }
}

pub(crate) fn is_status_request(s: &Sent, da: u8, sa: u8) -> bool {
    match s {
        Sent::Data(h, 0) => {
            h.da == da && h.sa == sa && h.dsap.is_none() && h.ssap.is_none()
                && h.fc == crate::fdl::FunctionCode::Request { fcb: crate::fdl::FrameCountBit::Inactive, req: crate::fdl::RequestType::FdlStatus }
        }
        _ => false,
    }
}

pub(crate) fn is_status_response(s: &Sent, da: u8, sa: u8, state: crate::fdl::ResponseState) -> bool {
    match s {
        Sent::Data(h, 0) => {
            h.da == da && h.sa == sa && h.dsap.is_none() && h.ssap.is_none()
                && h.fc == crate::fdl::FunctionCode::Response { state, status: crate::fdl::ResponseStatus::Ok }
        }
        _ => false,
    }
}

/// Obligations every poll has to meet whatever the state (C01 timing/bookkeeping, invariant).
pub(crate) fn universal(pre: &Pre, st: &FdlActiveStation, phy: &impl PhyView, now: Inst, napps: usize) {
    let (tx_calls, rx_calls, tx_len) = (phy.v_tx_calls(), phy.v_rx_calls(), phy.v_tx().len());
    vassert!(tx_calls <= 1, "C01/one-tx: at most one transmission is started per poll");
    if pre.busy(now) {
        vassert!(tx_calls == 0 && rx_calls == 0, "C01/busy: while a transmission is in progress the station neither transmits nor receives");
    }
    if tx_calls == 1 {
        let l = pre.lba;
        vassert!(l.is_some(), "C01/sync-pause: nothing is sent before any bus activity reference exists");
        let idle_us = now.total_micros() - l.unwrap().total_micros();
        vassert!(idle_us > 0, "C01/sync-pause: a telegram starts after the end of the previous one");
        // exact arithmetic, up to the 1 us clock resolution: idle * rate >= 33 bit - 1 us
        vassert!((idle_us as u64) * rate() + rate() >= 33_000_000, "C01/sync-pause: every telegram starts at least 33 bit times after the end of the previous bus activity");
        vassert!(!pre.new_bytes(), "C01/idle-after-rx: nothing is sent in a poll in which newly received bytes became visible");
        let want = now.total_micros() + bits_us(11 * tx_len as u64);
        vassert!(st.last_bus_activity.map(|t| t.total_micros()) == Some(want), "C01/tx-accounted: the own transmission is accounted as bus activity until its last bit");
    } else if !pre.busy(now) && pre.new_bytes() && st.connectivity_state == ConnectivityState::Online {
        vassert!(st.last_bus_activity.map(|t| t >= now).unwrap_or(false), "C01/rx-accounted: newly visible received bytes count as bus activity now");
    }
    // Bytes that stay in the receive buffer stay accounted: if the station's byte count covered
    // the buffer before this poll and the poll took nothing out of it (an incomplete telegram is
    // still waiting for its rest), the count still covers it afterwards - otherwise the same
    // bytes would be taken for fresh bus activity at every poll and neither the slot time nor the
    // token-lost time-out could ever expire on a bus that fell silent in the middle of a telegram.
    if pre.phy_pending > 0 && pre.pending_bytes >= pre.phy_pending && phy.v_pending() == pre.phy_pending {
        vassert!(st.pending_bytes >= phy.v_pending(), "C06/silence: received bytes that remain buffered are not counted as new bus activity a second time (a truncated telegram followed by silence still runs into the time-outs)");
    }
    vassert!(inv_fdl(st, napps), "C05/inv: the representation invariant of the station is preserved by poll()");
}

/// Reference rules for a ring member that hears telegrams while not holding the token
/// (ActiveIdle; also the continuation of CheckTokenPass once anything is heard).
#[derive(Clone, Copy, PartialEq, Eq)]
pub(crate) struct IdleRef {
    pub status_request: Option<u8>,
    pub new_previous: Option<u8>,
    pub collisions: u8,
    pub ring: RingView,
    /// 0 = still ActiveIdle, 1 = back to ListenToken (address collision), 2 = token accepted
    pub outcome: u8,
    /// TokenRing calls expected so far
    pub exp: Expect,
}

impl IdleRef {
    fn expect_witness(&mut self, sa: u8, da: u8) {
        self.ring = self.exp.call(1, sa, da);
    }

    pub fn hear(&mut self, t: &STel<3>, is_last: bool, ts: u8) {
        if self.outcome == 1 {
            return; // left the ring in this poll: nothing more is evaluated
        }
        if t.is_token() {
            if t.sa == ts {
                // somebody else uses our address
                self.collisions += 1;
                if self.collisions >= 2 {
                    self.outcome = 1;
                }
                return;
            }
            self.collisions = 0;
            if t.da != ts || !is_last {
                self.expect_witness(t.sa, t.da);
            } else if t.sa == self.ring.ps {
                self.outcome = 2;
            } else if self.new_previous == Some(t.sa) {
                self.expect_witness(t.sa, t.da);
                self.outcome = 2;
            } else {
                self.new_previous = Some(t.sa);
            }
        } else if t.is_status_request_for(ts) && is_last {
            self.status_request = Some(t.sa);
        }
    }

    /// Compare the station after the poll with the reference outcome.
    pub fn check(&self, st: &FdlActiveStation, now: Inst) {
        vassert!(self.exp.done(st), "C02/las: the ring view is told exactly the witnessed token passes, in order");
        match self.outcome {
            1 => vassert!(st.state == State::ListenToken { status_request: None, collision_count: 0 }, "C06/collision: two consecutive tokens carrying the own address as source make a ring member leave the ring and listen again"),
            2 => {
                vassert!(
                    st.state == State::UseToken { data: UseTokenData { token_time: now, first_app: None }, first_cycle_done: false },
                    "C11/accept: a token addressed to this station is accepted from the registered predecessor, or from another station on its second offer"
                );
            }
            _ => vassert!(
                st.state == State::ActiveIdle { status_request: self.status_request, new_previous_station: self.new_previous, collision_count: self.collisions },
                "C11/accept: without an acceptable token the station stays idle, remembering a stranger's first offer and a status request addressed to it"
            ),
        }
    }
}

fn run_idle_ref(start: IdleRef, tel: &[STel<3>; 2], n: usize, tail: Tail, ts: u8) -> IdleRef {
    let mut r = start;
    let mut i = 0;
    while i < n {
        let is_last = i + 1 == n && tail == Tail::Empty;
        r.hear(&tel[i], is_last, ts);
        i += 1;
    }
    r
}

fn reset_ring_log() {
    unsafe {
        RING_N = 0;
    }
}

// ==========================================================================================
// ListenToken
// ==========================================================================================

fn step_listen_token(log_on: bool) {
    logging(log_on);
    reset_ring_log();
    let p = any_params();
    let sr = any_opt_addr();
    let cc: u8 = kani::any();
    let mut st = any_station(p, State::ListenToken { status_request: sr, collision_count: cc }, 1);
    kani::assume(inv_fdl(&st, 1));
    let mut phy = Phy::any();
    let now = any_instant();
    let pre = snapshot(&st, &phy);
    let ts = pre.ts;
    let tel = phy.tel;
    let (n, tail) = (phy.n, phy.tail);

    st.poll(now, &mut phy, &mut ());

    universal(&pre, &st, &phy, now, 1);
    let s = sent(&phy);
    if pre.busy(now) {
        vassert!(st.state == State::ListenToken { status_request: sr, collision_count: cc } && ring_untouched(&st), "C01/busy: nothing changes while a transmission is in progress");
        return;
    }
    if pre.token_lost(now) {
        // C06(b): a silent bus for the station's time-out ends in a claim
        vassert!(s == Sent::Token { da: ts, sa: ts }, "C06/claim: after its token-lost time-out of silence the station claims the token with a token telegram to itself");
        vassert!(st.state == State::ClaimToken { step: ClaimTokenStep::SecondToken }, "C06/claim: the claim continues with the second token telegram");
        vassert!(view_of(&st.token_ring).state == MLas::Valid, "C02/claim: a claiming station regards its ring view as valid");
        vassert!(st.gap_state == GapState::DoPoll { current_address: ts }, "C12/claim-scan: after a claim the whole GAP is scanned starting behind the own address");
        kani::cover!(sr.is_some(), "cover: claim wins over a pending status reply");
        return;
    }
    vassert!(!st.state.have_token(), "C11/listen-never-accepts: a listening station never becomes token holder except by claiming after its time-out");
    vassert!(!matches!(s, Sent::Token { .. }), "C01/role: a listening station sends no token unless it claims after its time-out");
    if let Some(src) = sr {
        if pre.pause_over(now) {
            let ready = pre.ring.state == MLas::Valid;
            let want = if ready && src == pre.ring.ps { crate::fdl::ResponseState::MasterWithoutToken } else { crate::fdl::ResponseState::MasterNotReady };
            vassert!(is_status_response(&s, src, ts, want), "C12/status-reply: a listening station answers the requester: 'ready' only with a valid ring view and only to its predecessor, else 'not ready'");
            if ready {
                vassert!(st.state == State::ActiveIdle { status_request: None, new_previous_station: None, collision_count: 0 }, "C01+C02+C12/answered-once: a request is answered exactly once (the pending request is cleared with the reply), and a station with a valid ring view then waits for the token as ring member");
            } else {
                vassert!(st.state == State::ListenToken { status_request: None, collision_count: cc }, "C01+C12/answered-once: a request is answered exactly once (the pending request is cleared with the reply)");
            }
            kani::cover!(ready && src == pre.ring.ps, "cover: 'ready' reply to the predecessor");
            kani::cover!(ready && src != pre.ring.ps, "cover: 'not ready' to a stranger although the ring view is valid");
        } else {
            vassert!(s == Sent::Nothing, "C01/sync-pause: the reply waits for the synchronisation pause");
            vassert!(st.state == State::ListenToken { status_request: sr, collision_count: cc }, "C12/status-reply: the pending request is kept");
        }
        vassert!(ring_untouched(&st), "C02/las: answering a request does not change the ring view");
        return;
    }
    // hearing telegrams
    vassert!(s == Sent::Nothing, "C01/role: a listening station transmits only replies and claims");
    let mut want_sr = None;
    let mut want_cc = cc;
    let mut offline = false;
    let mut calls = 0usize;
    let mut exp = Expect::new();
    let mut i = 0;
    while i < n {
        let t = &tel[i];
        let is_last = i + 1 == n && tail == Tail::Empty;
        if !offline {
            if t.source() == Some(ts) {
                want_cc += 1;
                if want_cc >= 2 {
                    offline = true;
                }
            } else if t.is_token() {
                exp.call(1, t.sa, t.da);
                calls += 1;
            } else if t.is_status_request_for(ts) && is_last {
                want_sr = Some(t.sa);
            }
        }
        i += 1;
    }
    if offline {
        vassert!(st.state == State::Offline && st.connectivity_state == ConnectivityState::Offline, "C06/collision: hearing the own address as source twice while listening takes the station offline");
        kani::cover!(true, "cover: address collision while listening");
    } else {
        vassert!(st.state == State::ListenToken { status_request: want_sr, collision_count: want_cc }, "C12/status-latch: a status request is latched iff it is addressed to this station and is the last buffered telegram; collisions are counted");
        vassert!(exp.done(&st), "C02/las: the ring view is told exactly the witnessed token passes, in order");
        kani::cover!(want_sr.is_some(), "cover: status request latched");
        kani::cover!(calls == 2, "cover: two token passes witnessed in one poll");
    }
}

l2_harness! {
    #[kani::unwind(5)]
    fn l2_listen_token() { step_listen_token(false) }
}

l2_harness! {
    #[kani::unwind(5)]
    fn l2_listen_token_log() { step_listen_token(true) }
}

// ==========================================================================================
// ActiveIdle
// ==========================================================================================

fn step_active_idle(log_on: bool) {
    logging(log_on);
    reset_ring_log();
    let p = any_params();
    let sr = any_opt_addr();
    let np = any_opt_addr();
    let cc: u8 = kani::any();
    let mut st = any_station(p, State::ActiveIdle { status_request: sr, new_previous_station: np, collision_count: cc }, 1);
    kani::assume(inv_fdl(&st, 1));
    let mut phy = Phy::any();
    let now = any_instant();
    let pre = snapshot(&st, &phy);
    let ts = pre.ts;
    let tel = phy.tel;
    let (n, tail) = (phy.n, phy.tail);

    st.poll(now, &mut phy, &mut ());

    universal(&pre, &st, &phy, now, 1);
    let s = sent(&phy);
    if pre.busy(now) {
        vassert!(st.state == State::ActiveIdle { status_request: sr, new_previous_station: np, collision_count: cc } && ring_untouched(&st), "C01/busy: nothing changes while a transmission is in progress");
        return;
    }
    if pre.token_lost(now) {
        vassert!(s == Sent::Token { da: ts, sa: ts }, "C06/claim: after its token-lost time-out of silence the station claims the token with a token telegram to itself");
        vassert!(st.state == State::ClaimToken { step: ClaimTokenStep::SecondToken }, "C06/claim: the claim continues with the second token telegram");
        vassert!(st.gap_state == GapState::DoPoll { current_address: ts }, "C12/claim-scan: after a claim the whole GAP is scanned starting behind the own address");
        return;
    }
    vassert!(!matches!(s, Sent::Token { .. }), "C01/role: an idle ring member sends no token unless it claims after its time-out");
    if let Some(src) = sr {
        if pre.pause_over(now) {
            vassert!(is_status_response(&s, src, ts, crate::fdl::ResponseState::MasterInRing), "C12/status-reply: a ring member answers the requester with 'in ring'");
            vassert!(st.state == State::ActiveIdle { status_request: None, new_previous_station: np, collision_count: cc }, "C01+C12/answered-once: a request is answered exactly once (the pending request is cleared with the reply)");
            kani::cover!(true, "cover: 'in ring' reply");
        } else {
            vassert!(s == Sent::Nothing, "C01/sync-pause: the reply waits for the synchronisation pause");
            vassert!(st.state == State::ActiveIdle { status_request: sr, new_previous_station: np, collision_count: cc }, "C12/status-reply: the pending request is kept");
        }
        vassert!(ring_untouched(&st), "C02/las: answering a request does not change the ring view");
        return;
    }
    vassert!(s == Sent::Nothing, "C01/role: an idle ring member transmits only replies and claims");
    let start = IdleRef { status_request: None, new_previous: np, collisions: cc, ring: pre.ring, outcome: 0, exp: Expect::new() };
    let r = run_idle_ref(start, &tel, n, tail, ts);
    r.check(&st, now);
    kani::cover!(r.outcome == 2 && n == 1, "cover: token accepted from the predecessor");
    kani::cover!(r.outcome == 2 && np.is_some() && tel[0].sa != pre.ring.ps && n == 1, "cover: token accepted from a stranger on the second offer");
    kani::cover!(r.outcome == 0 && r.new_previous != np, "cover: stranger's first offer remembered");
    kani::cover!(r.outcome == 1, "cover: address collision makes the member leave the ring");
    kani::cover!(r.outcome == 2 && n == 2, "cover: witnessed pass followed by an accepted token in one poll");
}

l2_harness! {
    #[kani::unwind(5)]
    fn l2_active_idle() { step_active_idle(false) }
}

l2_harness! {
    #[kani::unwind(5)]
    fn l2_active_idle_log() { step_active_idle(true) }
}

// ==========================================================================================
// CheckTokenPass
// ==========================================================================================

fn step_check_token_pass(log_on: bool) {
    logging(log_on);
    reset_ring_log();
    let p = any_params();
    let attempt = any_attempt();
    let mut st = any_station(p, State::CheckTokenPass { attempt }, 1);
    kani::assume(inv_fdl(&st, 1));
    let mut phy = Phy::any();
    let now = any_instant();
    let pre = snapshot(&st, &phy);
    let ts = pre.ts;
    let tel = phy.tel;
    let (n, tail) = (phy.n, phy.tail);

    st.poll(now, &mut phy, &mut ());

    universal(&pre, &st, &phy, now, 1);
    let s = sent(&phy);
    if pre.busy(now) {
        vassert!(st.state == State::CheckTokenPass { attempt } && ring_untouched(&st), "C01/busy: nothing changes while a transmission is in progress");
        return;
    }
    if pre.new_bytes() {
        // (i) something is being heard: no retransmission and no removal in this poll
        vassert!(s == Sent::Nothing, "C11/heard-no-retry: while new bytes are arriving the token is not repeated");
        vassert!(Expect::new().no_removal(), "C11/never-remove-heard: a successor that is being heard is not removed");
    }
    if pre.slot_expired(now) {
        // nothing heard for a slot time: repeat the pass (twice), then drop the successor
        vassert!(matches!(s, Sent::Token { .. }), "C06/slot-timeout: a slot time of silence always ends the wait (also after a partial or undecodable reception), so that no disturbance leaves the bus silent for ever");
        let mut exp = Expect::new();
        let (want_ns, want_attempt, removed) = match attempt {
            PassTokenAttempt::First => (pre.ring.ns, PassTokenAttempt::Second, false),
            PassTokenAttempt::Second => (pre.ring.ns, PassTokenAttempt::Third, false),
            PassTokenAttempt::Third => {
                let v = exp.call(3, pre.ring.ns, 0);
                vassert!(exp.ok_so_far(), "C06+C11/remove-silent: after the third unanswered pass exactly the silent successor is removed from the ring view");
                (v.ns, PassTokenAttempt::First, true)
            }
        };
        if !removed {
            vassert!(Expect::new().no_removal(), "C11/never-remove-early: the successor is not removed before the third unanswered pass");
        }
        vassert!(s == Sent::Token { da: want_ns, sa: ts }, "C06+C11/retry: the pass is repeated to the same successor (at most twice), then goes to the next station");
        let v = exp.call(1, ts, want_ns);
        vassert!(exp.done(&st), "C02/las: the own token pass is recorded in the ring view");
        let ns_after = v.ns;
        if ns_after == ts {
            vassert!(st.state == State::UseToken { data: UseTokenData { token_time: now, first_app: None }, first_cycle_done: false }, "C11/alone: a station that is alone keeps the token");
        } else {
            vassert!(st.state == State::CheckTokenPass { attempt: want_attempt }, "C11/retry: each repetition is supervised again, counting attempts; a new successor starts at the first attempt");
        }
        kani::cover!(removed && ns_after == ts, "cover: last other station removed, token kept");
        kani::cover!(removed && ns_after != ts, "cover: silent successor removed, token to the next station");
        kani::cover!(attempt == PassTokenAttempt::First, "cover: first repetition");
        return;
    }
    vassert!(s == Sent::Nothing, "C11/supervise: within the slot time the station only listens");
    if n == 0 {
        vassert!(st.state == State::CheckTokenPass { attempt } && ring_untouched(&st), "C11/supervise: nothing heard, nothing changes");
        return;
    }
    // (ii) anything heard: the pass succeeded (or somebody else is active): become an idle member
    let start = IdleRef { status_request: None, new_previous: None, collisions: 0, ring: pre.ring, outcome: 0, exp: Expect::new() };
    let r = run_idle_ref(start, &tel, n, tail, ts);
    r.check(&st, now);
    vassert!(Expect::new().no_removal(), "C11/never-remove-heard: a successor that was heard is not removed");
    kani::cover!(r.outcome == 0 && tel[0].kind == 1, "cover: short confirmation heard after the pass");
    kani::cover!(r.outcome == 2, "cover: token comes straight back");
}

l2_harness! {
    #[kani::unwind(5)]
    fn l2_check_token_pass() { step_check_token_pass(false) }
}

l2_harness! {
    #[kani::unwind(5)]
    fn l2_check_token_pass_log() { step_check_token_pass(true) }
}

// ==========================================================================================
// GAP reference, shared by ClaimToken / PassToken
// ==========================================================================================

/// Next address to poll after `cur` (reference): the cyclic successor below HSA if it lies in the
/// GAP, else the sweep is over.
fn ref_gap_next(cur: u8, ts: u8, ns: u8, hsa: u8) -> Option<u8> {
    let succ = if cur == hsa - 1 { 0 } else { cur + 1 };
    if ref_in_gap(succ, ts, ns, hsa) {
        Some(succ)
    } else {
        None
    }
}

/// Is the reply an 'in ring' master report (a ring member that fell out of this station's view)?
fn reports_in_ring(t: &STel<3>) -> bool {
    matches!(t.fc, crate::fdl::FunctionCode::Response { state: crate::fdl::ResponseState::MasterInRing, status: crate::fdl::ResponseStatus::Ok })
}

/// Is the first buffered telegram the awaited status reply from `a`?  Returns (is_reply, ready).
fn status_reply_from(t: &STel<3>, a: u8, ts: u8) -> (bool, bool) {
    if t.kind == 2 && t.sa == a && t.da == ts {
        if let crate::fdl::FunctionCode::Response { state, status } = t.fc {
            let ready = status == crate::fdl::ResponseStatus::Ok
                && matches!(state, crate::fdl::ResponseState::MasterWithoutToken | crate::fdl::ResponseState::MasterInRing);
            return (true, ready);
        }
    }
    (false, false)
}

const IDLE_FRESH: State = State::ActiveIdle { status_request: None, new_previous_station: None, collision_count: 0 };

// ==========================================================================================
// ClaimToken
// ==========================================================================================

fn step_claim_token(log_on: bool) {
    logging(log_on);
    reset_ring_log();
    let p = any_params();
    let step = match kani::any::<u8>() {
        0 => ClaimTokenStep::FirstToken,
        1 => ClaimTokenStep::SecondToken,
        2 => ClaimTokenStep::Scan,
        _ => ClaimTokenStep::ScanAwaitResponse { address: kani::any() },
    };
    let mut st = any_station(p, State::ClaimToken { step }, 1);
    kani::assume(inv_fdl(&st, 1));
    let mut phy = Phy::any();
    let now = any_instant();
    let pre = snapshot(&st, &phy);
    let (ts, hsa) = (pre.ts, pre.hsa);
    let tel = phy.tel;
    let n = phy.n;

    st.poll(now, &mut phy, &mut ());

    universal(&pre, &st, &phy, now, 1);
    let s = sent(&phy);
    if pre.busy(now) {
        vassert!(st.state == State::ClaimToken { step } && st.gap_state == pre.gap && ring_untouched(&st), "C01/busy: nothing changes while a transmission is in progress");
        return;
    }
    // continue the scan from the given GAP state (Scan step, pause over)
    let scan = |st: &FdlActiveStation, s: &Sent, gap: GapState, ns: u8| match gap {
        GapState::Waiting { .. } => {
            vassert!(*s == Sent::Nothing && st.state == State::PassToken { do_gap: DoGap::No, attempt: PassTokenAttempt::First }, "C12/claim-scan: once the whole GAP was polled the new token is passed on");
        }
        GapState::DoPoll { current_address } => match ref_gap_next(current_address, ts, ns, hsa) {
            Some(a) => {
                vassert!(is_status_request(s, a, ts), "C12/claim-scan: after a claim consecutive GAP addresses are polled with status requests, one after the other");
                vassert!(st.state == State::ClaimToken { step: ClaimTokenStep::ScanAwaitResponse { address: a } } && st.gap_state == GapState::DoPoll { current_address: a }, "C12/claim-scan: the scan waits for the polled station's reply");
                kani::cover!(true, "cover: GAP address polled during the post-claim scan");
            }
            None => {
                vassert!(*s == Sent::Nothing && st.state == State::ClaimToken { step: ClaimTokenStep::Scan } && st.gap_state == GapState::Waiting { rotation_count: 0 }, "C12/claim-scan: the scan ends when the GAP is exhausted");
            }
        },
    };
    match step {
        ClaimTokenStep::FirstToken | ClaimTokenStep::SecondToken => {
            if pre.pause_over(now) {
                vassert!(s == Sent::Token { da: ts, sa: ts }, "C06/claim: the token is claimed with two token telegrams addressed to the station itself");
                let next = if step == ClaimTokenStep::FirstToken { ClaimTokenStep::SecondToken } else { ClaimTokenStep::Scan };
                vassert!(st.state == State::ClaimToken { step: next }, "C06/claim: the claim proceeds step by step");
                vassert!(view_of(&st.token_ring).state == MLas::Valid, "C02/claim: a claiming station regards its ring view as valid");
                vassert!(st.gap_state == GapState::DoPoll { current_address: ts }, "C12/claim-scan: after a claim the whole GAP is scanned starting behind the own address");
            } else {
                vassert!(s == Sent::Nothing && st.state == State::ClaimToken { step }, "C01/sync-pause: the claim waits for the synchronisation pause");
            }
            vassert!(ring_untouched(&st), "C02/las: claiming reports no token pass");
        }
        ClaimTokenStep::Scan => {
            if pre.pause_over(now) {
                scan(&st, &s, pre.gap, pre.ring.ns);
            } else {
                vassert!(s == Sent::Nothing && st.state == State::ClaimToken { step } && st.gap_state == pre.gap, "C01/sync-pause: the scan waits for the synchronisation pause");
            }
            vassert!(ring_untouched(&st), "C02/las: polling reports nothing to the ring view");
        }
        ClaimTokenStep::ScanAwaitResponse { address: a } => {
            if n >= 1 {
                let (is_reply, ready) = status_reply_from(&tel[0], a, ts);
                vassert!(s == Sent::Nothing, "C01/role: nothing is sent in the poll that receives a telegram");
                if is_reply {
                    vassert!(st.state == State::ClaimToken { step: ClaimTokenStep::Scan }, "C12/claim-scan: after a reply the scan continues");
                    if ready {
                        vassert!({ let mut e = Expect::new(); e.call(2, a, 0); e.done(&st) }, "C02+C06+C12/adopt: a polled station reporting to be a ready master (without token, or - a live member that dropped out of this station's view - already in ring) becomes the successor");
                        kani::cover!(true, "cover: ready master found during the post-claim scan");
                    } else {
                        vassert!(ring_untouched(&st), "C12/reply-evaluation: any other reply leaves the successor unchanged");
                    }
                } else {
                    vassert!(st.state == IDLE_FRESH, "C06/back-off: a telegram that is not the awaited reply makes the scanning station back off to idle (no second token holder lingers)");
                    vassert!(ring_untouched(&st), "C02/las: backing off reports nothing to the ring view");
                    kani::cover!(true, "cover: foreign telegram during the post-claim scan");
                }
            } else if pre.slot_expired(now) {
                // no reply within the slot time: immediately go on with the scan
                vassert!(st.state != State::ClaimToken { step }, "C06/slot-timeout: a slot time of silence always ends the wait (also after a partial or undecodable reception), so that no disturbance leaves the bus silent for ever");
                vassert!(ring_untouched(&st), "C12/reply-evaluation: silence leaves the successor unchanged");
                scan(&st, &s, pre.gap, pre.ring.ns);
            } else {
                vassert!(s == Sent::Nothing && st.state == State::ClaimToken { step } && ring_untouched(&st), "C12/claim-scan: the reply is awaited for one slot time");
            }
        }
    }
}

l2_harness! {
    #[kani::unwind(5)]
    fn l2_claim_token() { step_claim_token(false) }
}

l2_harness! {
    #[kani::unwind(5)]
    fn l2_claim_token_log() { step_claim_token(true) }
}

// ==========================================================================================
// PassToken
// ==========================================================================================

/// After the own token pass TS -> `ns_before`: the call is recorded, the station supervises the
/// pass or - being alone - keeps the token.
fn check_own_pass(st: &FdlActiveStation, s: &Sent, ts: u8, ns_before: u8, attempt: PassTokenAttempt, now: Inst) {
    vassert!(*s == Sent::Token { da: ns_before, sa: ts }, "C11/pass: the token is passed to the successor");
    let mut exp = Expect::new();
    let v = exp.call(1, ts, ns_before);
    vassert!(exp.done(st), "C02/las: the own token pass is recorded in the ring view");
    if v.ns == ts {
        vassert!(st.state == State::UseToken { data: UseTokenData { token_time: now, first_app: None }, first_cycle_done: false }, "C11/alone: a station that is alone keeps the token");
    } else {
        vassert!(st.state == State::CheckTokenPass { attempt }, "C11/supervise: after passing the token the station supervises the bus");
    }
}

fn step_pass_token(log_on: bool) {
    logging(log_on);
    reset_ring_log();
    let p = any_params();
    let do_gap = if kani::any() { DoGap::Yes } else { DoGap::No };
    let attempt = any_attempt();
    let mut st = any_station(p, State::PassToken { do_gap, attempt }, 1);
    kani::assume(inv_fdl(&st, 1));
    let mut phy = Phy::any();
    let now = any_instant();
    let pre = snapshot(&st, &phy);
    let (ts, hsa) = (pre.ts, pre.hsa);

    st.poll(now, &mut phy, &mut ());

    universal(&pre, &st, &phy, now, 1);
    let s = sent(&phy);
    if pre.busy(now) || !pre.pause_over(now) {
        vassert!(s == Sent::Nothing && st.state == State::PassToken { do_gap, attempt } && st.gap_state == pre.gap && ring_untouched(&st), "C01/sync-pause: the pass waits for the end of the transmission and the synchronisation pause");
        return;
    }
    vassert!(phy.rx_calls <= 1, "C01/role: a passing station does not read telegrams");
    if do_gap == DoGap::Yes {
        let want_gap = match pre.gap {
            GapState::Waiting { rotation_count } => {
                if rotation_count > pre.gap_wait {
                    match ref_gap_next(ts, ts, pre.ring.ns, hsa) {
                        Some(a) => GapState::DoPoll { current_address: a },
                        None => GapState::Waiting { rotation_count: 0 },
                    }
                } else {
                    GapState::Waiting { rotation_count: rotation_count + 1 }
                }
            }
            GapState::DoPoll { current_address } => match ref_gap_next(current_address, ts, pre.ring.ns, hsa) {
                Some(a) => GapState::DoPoll { current_address: a },
                None => GapState::Waiting { rotation_count: 0 },
            },
        };
        vassert!(st.gap_state == want_gap, "C12/gap-sweep: per token visit the sweep advances by one address, then pauses for the configured number of rotations and restarts behind the own address");
        if let GapState::DoPoll { current_address: a } = want_gap {
            vassert!(is_status_request(&s, a, ts), "C12/gap-poll: the GAP address is polled with an FDL status request from this station");
            vassert!(ref_in_gap(a, ts, pre.ring.ns, hsa), "C12/gap-range: a polled address lies strictly between this station and its successor (cyclically)");
            vassert!(st.state == State::AwaitStatusResponse { address: a }, "C12/one-poll-per-visit: after the poll the station awaits the reply and then passes the token");
            vassert!(ring_untouched(&st), "C02/las: polling reports nothing to the ring view");
            kani::cover!(matches!(pre.gap, GapState::Waiting { .. }), "cover: new sweep starts after the waiting period");
            kani::cover!(a == 0 && ts > 0, "cover: sweep wraps around below TS");
            return;
        }
    } else {
        vassert!(st.gap_state == pre.gap, "C12/one-poll-per-visit: no GAP activity when the visit's poll is already done");
    }
    check_own_pass(&st, &s, ts, pre.ring.ns, attempt, now);
    // supervision starts from what is buffered NOW: if the station's byte accounting was
    // consistent with the receive buffer before the pass it is so afterwards, i.e. every byte
    // that arrives after the pass counts as "heard" (C11: a successor that was heard is never
    // removed).  (Stale accounting after discarded garbage is a pre-existing state, not created
    // by the pass.)
    if pre.pending_bytes <= pre.phy_pending {
        vassert!(st.pending_bytes <= phy.v_pending(), "C11/heard: passing the token leaves the byte accounting consistent with the receive buffer, so every byte arriving after the pass counts as heard");
    }
    kani::cover!(pre.ring.ns == ts, "cover: token passed to self when alone");
}

l2_harness! {
    #[kani::unwind(5)]
    fn l2_pass_token() { step_pass_token(false) }
}

l2_harness! {
    #[kani::unwind(5)]
    fn l2_pass_token_log() { step_pass_token(true) }
}

// ==========================================================================================
// AwaitStatusResponse
// ==========================================================================================

fn step_await_status_response(log_on: bool) {
    logging(log_on);
    reset_ring_log();
    let p = any_params();
    let a: u8 = kani::any();
    let mut st = any_station(p, State::AwaitStatusResponse { address: a }, 1);
    kani::assume(inv_fdl(&st, 1));
    let mut phy = Phy::any();
    let now = any_instant();
    let pre = snapshot(&st, &phy);
    let ts = pre.ts;
    let tel = phy.tel;
    let n = phy.n;

    st.poll(now, &mut phy, &mut ());

    universal(&pre, &st, &phy, now, 1);
    let s = sent(&phy);
    vassert!(st.gap_state == pre.gap, "C12/gap-sweep: awaiting the reply does not move the sweep");
    if pre.busy(now) {
        vassert!(st.state == State::AwaitStatusResponse { address: a } && ring_untouched(&st), "C01/busy: nothing changes while a transmission is in progress");
        return;
    }
    if n >= 1 {
        let (is_reply, ready) = status_reply_from(&tel[0], a, ts);
        vassert!(s == Sent::Nothing, "C01/role: nothing is sent in the poll that receives a telegram");
        if is_reply {
            vassert!(st.state == State::PassToken { do_gap: DoGap::No, attempt: PassTokenAttempt::First }, "C12/one-poll-per-visit: after the reply the token is passed on without another poll");
            if ready {
                vassert!({ let mut e = Expect::new(); e.call(2, a, 0); e.done(&st) }, "C02+C06+C12/adopt: a polled station reporting to be a ready master (without token, or - a live member that dropped out of this station's view - already in ring) becomes the successor");
                kani::cover!(reports_in_ring(&tel[0]), "cover: dropped ring member re-admitted");
                kani::cover!(true, "cover: ready master becomes the successor");
            } else {
                vassert!(ring_untouched(&st), "C12/reply-evaluation: any other reply leaves the successor unchanged");
                kani::cover!(true, "cover: reply from a slave or not-ready master");
            }
        } else {
            vassert!(st.state == IDLE_FRESH && ring_untouched(&st), "C06/back-off: a telegram that is not the awaited reply makes the station back off to idle (no second token holder lingers)");
            kani::cover!(tel[0].is_token(), "cover: token heard while awaiting a status reply");
        }
    } else if pre.slot_expired(now) {
        // silence: pass the token right away
        vassert!(st.state != State::AwaitStatusResponse { address: a }, "C06/slot-timeout: a slot time of silence always ends the wait (also after a partial or undecodable reception), so that no disturbance leaves the bus silent for ever");
        check_own_pass(&st, &s, ts, pre.ring.ns, PassTokenAttempt::First, now);
    } else {
        vassert!(s == Sent::Nothing && st.state == State::AwaitStatusResponse { address: a } && ring_untouched(&st), "C12/gap-poll: the reply is awaited for one slot time");
    }
}

l2_harness! {
    #[kani::unwind(5)]
    fn l2_await_status_response() { step_await_status_response(false) }
}

l2_harness! {
    #[kani::unwind(5)]
    fn l2_await_status_response_log() { step_await_status_response(true) }
}

// ==========================================================================================
// UseToken / AwaitDataResponse with nondeterministic applications (C13, C15)
// ==========================================================================================

pub(crate) fn ttr_us() -> i64 {
    bits_us(32436)
}
pub(crate) fn gap_reserve_us() -> i64 {
    bits_us(SLOT_BITS as u64 + 100)
}

fn any_use_token_data(napps: usize) -> UseTokenData {
    let first_app = if kani::any() {
        let f: usize = kani::any();
        kani::assume(f < napps);
        Some(f)
    } else {
        None
    };
    UseTokenData { token_time: any_instant(), first_app }
}

/// Reference for what happens once the station may use the token in this poll (pause over):
/// which applications are asked, in which order, who sends, and the resulting state.
/// `fcd` = the visit's guaranteed cycle was already granted.
fn check_use_token(
    st: &FdlActiveStation,
    s: &Sent,
    apps: &[NdApp; 3],
    napps: usize,
    pre_next: usize,
    data: UseTokenData,
    fcd: bool,
    end_hold: Inst,
    now: Inst,
    ts: u8,
    seq_base: u8,
) {
    let hold_open = now < end_hold;
    let offer = hold_open || !fcd;
    let mut idx = pre_next;
    let mut first_app = data.first_app;
    let mut sender: Option<usize> = None;
    let mut asked = 0u8;
    if offer {
        let mut k = 0;
        while k < napps {
            asked += 1;
            vassert!(apps[idx].tx_calls == 1 && apps[idx].tx_seq == seq_base + asked, "C15/round-robin: applications are asked in round-robin order starting with the one whose turn it is, each at most once per poll");
            vassert!(apps[idx].tx_high_prio_only == !hold_open, "C13/hold-gate: low-priority cycles are offered only while the token hold time is running; afterwards only the one guaranteed high-priority cycle");
            if apps[idx].behaviour != 0 {
                sender = Some(idx);
                break;
            }
            // declined: its turn ends
            let fa = *first_app.get_or_insert(idx);
            idx = (idx + 1) % napps;
            if idx == fa {
                break;
            }
            k += 1;
        }
    }
    // nobody else was asked
    let mut total = 0u8;
    let mut i = 0;
    while i < 3 {
        total += apps[i].tx_calls;
        i += 1;
    }
    if !offer {
        vassert!(total == 0, "C13/one-cycle: once the hold time is over and the visit's guaranteed message cycle was used, no application is asked again in this token visit");
    }
    vassert!(total == asked, "C15/round-robin: no application is asked outside its turn");
    let data_after = UseTokenData { token_time: data.token_time, first_app };
    match sender {
        Some(i) => {
            vassert!(st.next_application == i, "C15/round-robin: the sending application keeps its turn until its message cycle is over");
            if apps[i].behaviour == 1 {
                vassert!(is_status_request(s, apps[i].target, ts), "C15/tx: the application's telegram is what goes on the wire");
                vassert!(st.state == State::AwaitDataResponse { address: apps[i].target, data: data_after }, "C15/await: a request that expects a reply is followed by waiting for exactly that station's reply");
                
            } else {
                vassert!(matches!(s, Sent::Data(h, 2) if h.da == 127), "C15/tx: the application's telegram is what goes on the wire");
                vassert!(st.state == State::UseToken { data: data_after, first_cycle_done: true }, "C15/await: a request without reply keeps the token in use");
            }
        }
        None => {
            vassert!(*s == Sent::Nothing, "C01/role: without an application telegram nothing is sent in this poll");
            vassert!(st.state == State::PassToken { do_gap: DoGap::Yes, attempt: PassTokenAttempt::First }, "C13/pass-on: when every application has declined once or the hold time is over the token is passed on (with the visit's GAP turn)");
            if offer && napps > 0 {
                vassert!(st.next_application == idx, "C15/round-robin: a decline advances the turn by exactly one application");
            } else {
                vassert!(st.next_application == pre_next, "C15/round-robin: the turn does not move when nobody was asked");
            }
            if napps >= 1 {
                kani::cover!(offer && asked as usize == napps, "cover: all applications decline in turn");
            }
            kani::cover!(!offer, "cover: hold time over and guaranteed cycle used: token passed without asking");
        }
    }
}

fn step_use_token(log_on: bool, napps: usize) {
    // `napps` is concrete per harness: with a symbolic count CBMC unrolls the application loop
    // (each iteration containing a full telegram encoder) up to the unwind bound.
    logging(log_on);
    reset_ring_log();
    unsafe {
        CB_SEQ = 0;
    }
    let p = any_params();
    let data = any_use_token_data(napps);
    let fcd: bool = kani::any();
    let mut st = any_station(p, State::UseToken { data, first_cycle_done: fcd }, napps);
    kani::assume(inv_fdl(&st, napps));
    let mut phy = TPhy::<0, 1, 16>::any(); // UseToken never reads telegrams: only the pending byte count matters
    let now = any_instant();
    let pre = snapshot(&st, &phy);
    let ts = pre.ts;
    let mut apps = [NdApp::any(), NdApp::any(), NdApp::any()];

    {
        let [a0, a1, a2] = &mut apps;
        let mut refs: [&mut dyn FdlApplication; 3] = [a0, a1, a2];
        st.poll_multi(now, &mut phy, &mut refs[..napps]);
    }

    universal(&pre, &st, &phy, now, napps);
    let s = sent(&phy);
    vassert!(ring_untouched(&st), "C02/las: using the token reports nothing to the ring view");
    let mut i = 0;
    while i < 3 {
        vassert!(apps[i].rx_calls == 0 && apps[i].to_calls == 0, "C15/matched-reply: no reply or time-out is delivered while no reply is outstanding");
        i += 1;
    }
    if pre.busy(now) {
        vassert!(st.state == State::UseToken { data, first_cycle_done: fcd } && apps[0].tx_calls + apps[1].tx_calls + apps[2].tx_calls == 0, "C01/busy: nothing changes while a transmission is in progress");
        return;
    }
    // hold time bookkeeping on the first poll of a token visit
    let first_poll = pre.last_token_time != data.token_time;
    let want_end = if first_poll {
        let reserve = if matches!(pre.gap, GapState::DoPoll { .. }) { gap_reserve_us() } else { 0 };
        Inst::from_micros(pre.last_token_time.total_micros() + ttr_us() - reserve)
    } else {
        pre.end_hold
    };
    if !pre.pause_over(now) {
        // nothing can be done with the token yet; the hold-time bookkeeping of a new visit may
        // happen now or wait until the pause is over (it is then still the visit's first poll)
        let booked = st.end_token_hold_time == want_end && st.last_token_time == data.token_time;
        let deferred = st.end_token_hold_time == pre.end_hold && st.last_token_time == pre.last_token_time;
        vassert!(booked || deferred, "C13/hold-time: the token hold time ends one target rotation time after the previous token receipt (minus one GAP poll when one is pending)");
        vassert!(s == Sent::Nothing && st.state == State::UseToken { data, first_cycle_done: fcd } && apps[0].tx_calls + apps[1].tx_calls + apps[2].tx_calls == 0, "C01/sync-pause: the token is used only after the synchronisation pause");
        return;
    }
    vassert!(st.end_token_hold_time == want_end, "C13/hold-time: the token hold time ends one target rotation time after the previous token receipt (minus one GAP poll when one is pending)");
    vassert!(st.last_token_time == data.token_time, "C13/hold-time: the receipt time of this visit's token is remembered for the next rotation");
    check_use_token(&st, &s, &apps, napps, pre.next_app, data, fcd, want_end, now, ts, 0);
    kani::cover!(first_poll && now >= want_end && !fcd, "cover: hold time already over on arrival");
    kani::cover!(true, "cover: token used");
}

fn step_await_data_response(log_on: bool, napps: usize) {
    logging(log_on);
    reset_ring_log();
    unsafe {
        CB_SEQ = 0;
    }
    let p = any_params();
    let data = any_use_token_data(napps);
    let address: u8 = kani::any();
    kani::assume(address <= 127);
    let mut st = any_station(p, State::AwaitDataResponse { address, data }, napps);
    kani::assume(inv_fdl(&st, napps));
    let mut phy = TPhy::<1, 3, 16>::any(); // only the first buffered telegram is read
    let now = any_instant();
    let pre = snapshot(&st, &phy);
    let ts = pre.ts;
    let tel = phy.tel;
    let n = phy.n;
    let mut apps = [NdApp::any(), NdApp::any(), NdApp::any()];
    let who = pre.next_app;

    {
        let [a0, a1, a2] = &mut apps;
        let mut refs: [&mut dyn FdlApplication; 3] = [a0, a1, a2];
        st.poll_multi(now, &mut phy, &mut refs[..napps]);
    }

    universal(&pre, &st, &phy, now, napps);
    let s = sent(&phy);
    vassert!(ring_untouched(&st), "C02/las: awaiting a reply reports nothing to the ring view");
    let mut i = 0;
    while i < 3 {
        if i != who {
            vassert!(apps[i].rx_calls == 0 && apps[i].to_calls == 0, "C15/matched-reply: replies and time-outs go only to the application that sent the request");
        }
        i += 1;
    }
    vassert!(apps[who].rx_calls + apps[who].to_calls <= 1, "C15/matched-reply: at most one of reply and time-out is delivered per request");
    if pre.busy(now) {
        vassert!(st.state == State::AwaitDataResponse { address, data } && apps[who].callbacks() == 0, "C01/busy: nothing changes while a transmission is in progress");
        return;
    }
    if n >= 1 {
        let t = &tel[0];
        let valid = t.kind == 1 || (t.kind == 2 && t.sa == address && t.da == ts && matches!(t.fc, crate::fdl::FunctionCode::Response { .. }));
        vassert!(s == Sent::Nothing, "C01/role: nothing is sent in the poll that receives a telegram");
        if valid {
            vassert!(apps[who].rx_calls == 1 && apps[who].to_calls == 0 && apps[who].rx_addr == address, "C15/matched-reply: the reply is delivered once, to the sender, tagged with the addressed station");
            vassert!(apps[who].rx_kind == t.kind && (t.kind == 1 || (apps[who].rx_sa == address && apps[who].rx_da == ts && apps[who].rx_is_response)), "C15/admission: a delivered reply is a short confirmation or a response telegram from the addressed station to this station");
            vassert!(matches!(st.state, State::UseToken { data: d, .. } if d == data), "C15/await: after the reply the token is in use again");
            vassert!(st.state == State::UseToken { data, first_cycle_done: true }, "C13/one-cycle: a completed message cycle counts as the visit's guaranteed cycle");
            vassert!(apps[0].tx_calls + apps[1].tx_calls + apps[2].tx_calls == 0, "C15/round-robin: no new request in the poll that delivered the reply");
            kani::cover!(t.kind == 1, "cover: short confirmation delivered");
            kani::cover!(t.kind == 2, "cover: response telegram delivered");
        } else {
            vassert!(apps[who].callbacks() == 0, "C15/admission: a telegram that is not a reply to the request is never delivered to the application");
            vassert!(st.state == IDLE_FRESH, "C06/back-off: a telegram that is not the awaited reply makes the token holder back off to idle");
            kani::cover!(t.kind == 2 && t.sa == address && t.da == ts, "cover: request (not response) from the addressed station rejected");
            kani::cover!(t.kind == 2 && t.sa != address && matches!(t.fc, crate::fdl::FunctionCode::Response { .. }), "cover: response from a foreign source rejected");
        }
        return;
    }
    if !pre.slot_expired(now) {
        vassert!(s == Sent::Nothing && st.state == State::AwaitDataResponse { address, data } && apps[who].callbacks() == 0, "C15/await: the reply is awaited for one slot time");
        return;
    }
    // time-out: delivered once, then the token is used again at once
    vassert!(apps[who].to_calls == 1, "C06/slot-timeout: a slot time of silence always ends the wait (also after a partial or undecodable reception), so that no disturbance leaves the bus silent for ever");
    vassert!(apps[who].to_calls == 1 && apps[who].rx_calls == 0 && apps[who].to_addr == address && apps[who].to_seq == 1, "C15/matched-reply: the time-out is delivered once, to the sender, before anything else happens");
    let first_poll = pre.last_token_time != data.token_time;
    let want_end = if first_poll {
        let reserve = if matches!(pre.gap, GapState::DoPoll { .. }) { gap_reserve_us() } else { 0 };
        Inst::from_micros(pre.last_token_time.total_micros() + ttr_us() - reserve)
    } else {
        pre.end_hold
    };
    check_use_token(&st, &s, &apps, napps, pre.next_app, data, true, want_end, now, ts, 1);
    kani::cover!(apps[who].tx_calls == 1, "cover: retry offered to the same application right after its time-out");
}


l2_harness! {
    #[kani::unwind(10)]
    fn l2_use_token_0apps() { step_use_token(false, 0) }
}
l2_harness! {
    #[kani::unwind(10)]
    fn l2_use_token_1app() { step_use_token(false, 1) }
}
l2_harness! {
    #[kani::unwind(10)]
    fn l2_use_token_2apps() { step_use_token(false, 2) }
}
l2_harness! {
    #[kani::unwind(10)]
    fn l2_use_token_2apps_log() { step_use_token(true, 2) }
}
l2_harness! {
    #[kani::unwind(10)]
    fn l2_use_token_3apps_t() { step_use_token(false, 3) }
}
l2_harness! {
    #[kani::unwind(10)]
    fn l2_await_data_response_1app() { step_await_data_response(false, 1) }
}
l2_harness! {
    #[kani::unwind(10)]
    fn l2_await_data_response_2apps() { step_await_data_response(false, 2) }
}
l2_harness! {
    #[kani::unwind(10)]
    fn l2_await_data_response_2apps_log() { step_await_data_response(true, 2) }
}
l2_harness! {
    #[kani::unwind(10)]
    fn l2_await_data_response_3apps_t() { step_await_data_response(false, 3) }
}

// ---- the same steps at 19.2 kbit/s: one bit time is 52.08 us, so every bit/time conversion
// ---- rounds (at 500 kbit/s one bit is exactly 2 us and rounding paths are not exercised)
l2_harness! {
    #[kani::unwind(5)]
    fn l2_listen_token_log_b19200() { use_baud(crate::Baudrate::B19200); step_listen_token(true) }
}
l2_harness! {
    #[kani::unwind(5)]
    fn l2_pass_token_log_b19200() { use_baud(crate::Baudrate::B19200); step_pass_token(true) }
}
l2_harness! {
    #[kani::unwind(5)]
    fn l2_check_token_pass_log_b19200() { use_baud(crate::Baudrate::B19200); step_check_token_pass(true) }
}
l2_harness! {
    #[kani::unwind(10)]
    fn l2_use_token_1app_b19200() { use_baud(crate::Baudrate::B19200); step_use_token(false, 1) }
}
l2_harness! {
    #[kani::unwind(5)]
    fn l2_active_idle_log_b45450() { use_baud(crate::Baudrate::B45450); step_active_idle(true) }
}

// ==========================================================================================
// Byte-level end-to-end steps (thorough tier): the same poll() over the byte-level PHY, i.e.
// with the real receive helpers and the real decoder inside the step.  No detailed oracle - the
// universal obligations, totality and the invariant - as an independent check of the
// decoder -> helpers -> station composition the telegram-level harnesses rely on.
// ==========================================================================================

impl<const RXN: usize, const TXN: usize> PhyView for KPhy<RXN, TXN> {
    fn v_pending(&self) -> usize {
        self.pending()
    }
    fn v_transmitting(&self) -> bool {
        self.transmitting
    }
    fn v_tx_calls(&self) -> usize {
        self.tx_calls
    }
    fn v_rx_calls(&self) -> usize {
        self.rx_calls
    }
    fn v_tx(&self) -> &[u8] {
        &self.tx[..self.tx_len]
    }
}

fn step_bytes(state: State) {
    logging(true);
    reset_ring_log();
    let p = any_params();
    let mut st = any_station(p, state, 1);
    kani::assume(inv_fdl(&st, 1));
    kani::assume(st.pending_bytes <= 6);
    let mut phy = KPhy::<6, 16>::any();
    let now = any_instant();
    // snapshot with the transmitting flag as the station will see it
    let pre = snapshot(&st, &phy);
    st.poll(now, &mut phy, &mut ());
    // rx_calls counts the pending-bytes probe as well: compare transmissions only
    vassert!(phy.tx_calls <= 1, "C01/one-tx: at most one transmission is started per poll");
    if pre.busy(now) {
        vassert!(phy.tx_calls == 0, "C01/busy: while a transmission is in progress the station does not transmit");
    }
    if phy.tx_calls == 1 {
        let idle_us = now.total_micros() - pre.lba.unwrap().total_micros();
        vassert!((idle_us as u64) * rate() + rate() >= 33_000_000, "C01/sync-pause: every telegram starts at least 33 bit times after the end of the previous bus activity");
        vassert!(!pre.new_bytes(), "C01/idle-after-rx: nothing is sent in a poll in which newly received bytes became visible");
    }
    vassert!(inv_fdl(&st, 1), "C05/inv: the representation invariant of the station is preserved by poll()");
    kani::cover!(phy.rx_off > 0, "cover: bytes consumed from the receive buffer");
    kani::cover!(phy.tx_calls == 1, "cover: a transmission is started");
}

l2_harness! {
    #[kani::unwind(9)]
    fn l2_bytes_listen_token_t() {
        step_bytes(State::ListenToken { status_request: any_opt_addr(), collision_count: kani::any() })
    }
}

l2_harness! {
    #[kani::unwind(9)]
    fn l2_bytes_active_idle_t() {
        step_bytes(State::ActiveIdle { status_request: any_opt_addr(), new_previous_station: any_opt_addr(), collision_count: kani::any() })
    }
}

l2_harness! {
    #[kani::unwind(9)]
    fn l2_bytes_await_status_response_t() {
        step_bytes(State::AwaitStatusResponse { address: kani::any() })
    }
}


// ==========================================================================================
// replay twins
// ==========================================================================================
//
// Not part of any verdict.  When a step harness above fails, the runner re-runs the same step
// here with the precise reference ring over a small consistent LAS (`RingMode::Small`): the stubs
// then draw no nondeterministic values, so Kani's concrete playback lines up with a native run in
// which the REAL bitvec TokenRing executes, and the counterexample starts from a ring view that
// satisfies TokenRing's own invariant.  If the twin finds no counterexample (the failure needs a
// ring evolution the small ring cannot produce) the runner falls back to the original's playback.

l2_harness! {
    #[kani::unwind(5)]
    fn l2_listen_token__replay() { use_small_ring(); step_listen_token(true) }
}
l2_harness! {
    #[kani::unwind(5)]
    fn l2_active_idle__replay() { use_small_ring(); step_active_idle(true) }
}
l2_harness! {
    #[kani::unwind(5)]
    fn l2_check_token_pass__replay() { use_small_ring(); step_check_token_pass(true) }
}
l2_harness! {
    #[kani::unwind(5)]
    fn l2_claim_token__replay() { use_small_ring(); step_claim_token(true) }
}
l2_harness! {
    #[kani::unwind(5)]
    fn l2_pass_token__replay() { use_small_ring(); step_pass_token(true) }
}
l2_harness! {
    #[kani::unwind(5)]
    fn l2_await_status_response__replay() { use_small_ring(); step_await_status_response(true) }
}
