// harness file fdl_active (see /verif/DESIGN.md)
