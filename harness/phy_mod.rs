// C16 harnesses: the generic receive helpers of the ProfibusPhy trait (src/phy/mod.rs) over the
// byte-level harness PHY; as crate::phy::verif.

use super::*;
use crate::fdl::{Telegram, TelegramTx};
use crate::verif_support::*;

#[derive(Clone, Copy, PartialEq, Eq)]
struct Rec {
    kind: u8,
    da: u8,
    sa: u8,
    fc: u8,
    plen: usize,
    is_last: bool,
}

const NOREC: Rec = Rec { kind: 9, da: 0, sa: 0, fc: 0, plen: 0, is_last: false };

fn rec_of(t: &Telegram, is_last: bool) -> Rec {
    match t {
        Telegram::Token(t) => Rec { kind: 0, da: t.da, sa: t.sa, fc: 0, plen: 0, is_last },
        Telegram::ShortConfirmation(_) => Rec { kind: 1, da: 0, sa: 0, fc: 0, plen: 0, is_last },
        Telegram::Data(d) => Rec { kind: 2, da: d.h.da, sa: d.h.sa, fc: d.h.fc.to_byte(), plen: d.pdu.len(), is_last },
    }
}

/// receive_all_telegrams == iterated decoder: exactly the telegrams the decoder finds one after
/// the other are handed over, in order, once; `is_last` iff nothing is buffered behind; the result
/// of the last call is returned iff it was flagged last; undecodable data is discarded entirely,
/// an incomplete telegram is left in the buffer untouched.
fn receive_all_vs_decoder<const N: usize>() {
    let buf: [u8; N] = kani::any();
    let len: usize = kani::any();
    kani::assume(len <= N);
    receive_all_vs_decoder_on::<N>(buf, len);
}

/// Longer buffers of a restricted SHAPE: an optional short confirmation, then bytes that start
/// like an SD2 frame with LE = LEr in 3..=11 (9..17 bytes; LE 3 and 11 are the lengths for which
/// the canonical encoding would be SD1 / SD3), everything else symbolic, any fill level.
fn receive_all_sd2_shape<const N: usize>(le_lo: u8, le_hi: u8) {
    let buf: [u8; N] = kani::any();
    let len: usize = kani::any();
    kani::assume(len <= N);
    let pre: usize = if kani::any() { 1 } else { 0 };
    if pre == 1 {
        kani::assume(buf[0] == 0xE5);
    }
    kani::assume(buf[pre] == 0x68 && buf[pre + 3] == 0x68 && buf[pre + 1] == buf[pre + 2] && buf[pre + 1] >= le_lo && buf[pre + 1] <= le_hi);
    receive_all_vs_decoder_on::<N>(buf, len);
}

/// LE = 3: the 9-byte SD2 frame whose canonical encoding would be SD1
#[kani::proof]
#[kani::unwind(13)]
fn c16_receive_all_sd2_le3_q() {
    receive_all_sd2_shape::<10>(3, 3);
}

/// LE = 11: the 17-byte SD2 frame whose canonical encoding would be SD3
#[kani::proof]
#[kani::unwind(21)]
fn c16_receive_all_sd2_le11_q() {
    receive_all_sd2_shape::<18>(11, 11);
}

fn receive_all_vs_decoder_on<const N: usize>(buf: [u8; N], len: usize) {
    let mut phy = KPhy::<N, 4>::idle_with(buf, len);
    let now = crate::time::Instant::ZERO;

    // up to N telegrams fit into N bytes (short confirmations)
    let mut got = [NOREC; N];
    let mut ngot = 0usize;
    let res = phy.receive_all_telegrams(now, |t, is_last| {
        if ngot < N {
            got[ngot] = rec_of(&t, is_last);
        }
        ngot += 1;
        ngot
    });

    // reference: decode, hand over, advance
    let mut off = 0usize;
    let mut k = 0usize;
    let mut last_flagged = false;
    let mut steps = 0;
    while steps <= N {
        steps += 1;
        match Telegram::deserialize(&buf[off..len]) {
            Some(Ok((t, n))) => {
                let is_last = off + n == len;
                vassert!(k < ngot && k < N && got[k] == rec_of(&t, is_last), "C16/exact: exactly the buffered telegrams are handed to the caller, in order, flagged last iff nothing is buffered behind");
                k += 1;
                off += n;
                last_flagged = is_last;
                if is_last {
                    break;
                }
            }
            Some(Err(())) => {
                off = len; // undecodable data is discarded entirely
                last_flagged = false;
                break;
            }
            None => {
                last_flagged = false;
                break;
            }
        }
    }
    vassert!(ngot == k, "C16/exact: no telegram is handed over twice or invented");
    vassert!(phy.rx_off == off, "C16/no-loss: exactly the bytes of handed-over telegrams (or of undecodable data) are dropped; an incomplete telegram stays buffered");
    vassert!(res.is_some() == (k > 0 && last_flagged), "C16/result: the caller's result is forwarded iff the last telegram was flagged last");
    if let Some(r) = res {
        vassert!(r == k, "C16/result: the forwarded result is that of the last telegram");
    }
    kani::cover!(k == 2 && off < len, "cover: two telegrams followed by an incomplete one");
    kani::cover!(k >= 1 && off == len && !last_flagged, "cover: telegram followed by garbage");
    kani::cover!(k == 3, "cover: three telegrams in one buffer");
}

#[kani::proof]
#[kani::unwind(10)]
fn c16_receive_all_vs_decoder_q() {
    receive_all_vs_decoder::<7>();
}

#[kani::proof]
#[kani::unwind(16)]
fn c16_receive_all_vs_decoder_t() {
    receive_all_vs_decoder::<12>();
}

/// receive_telegram: at most the first buffered telegram is handed over.
#[kani::proof]
#[kani::unwind(12)]
fn c16_receive_one_vs_decoder_q() {
    let buf: [u8; 9] = kani::any();
    let len: usize = kani::any();
    kani::assume(len <= 9);
    let mut phy = KPhy::<9, 4>::idle_with(buf, len);
    let now = crate::time::Instant::ZERO;
    let mut calls = 0;
    let res = phy.receive_telegram(now, |t| {
        calls += 1;
        rec_of(&t, false)
    });
    match Telegram::deserialize(&buf[..len]) {
        Some(Ok((t, n))) => {
            vassert!(calls == 1 && res == Some(rec_of(&t, false)) && phy.rx_off == n, "C16/exact: the first buffered telegram is handed over once and exactly its bytes are dropped");
            kani::cover!(n < len, "cover: more data behind the received telegram");
        }
        Some(Err(())) => vassert!(calls == 0 && res.is_none() && phy.rx_off == len, "C16/discard: undecodable data is discarded entirely"),
        None => vassert!(calls == 0 && res.is_none() && phy.rx_off == 0, "C16/no-loss: no byte of a still incomplete telegram is dropped"),
    }
    vassert!(phy.poll_pending_received_bytes(now) == len - phy.rx_off, "C16/pending: the pending byte count is what is left in the buffer");
}

/// One telegram of a symbolic kind written by the real encoder at `buf[off..]`.
fn emit(buf: &mut [u8], off: usize) -> (usize, Rec) {
    let kind: u8 = kani::any();
    kani::assume(kind <= 2);
    match kind {
        0 => {
            let (da, sa): (u8, u8) = (kani::any(), kani::any());
            let n = TelegramTx::new(&mut buf[off..]).send_token_telegram(da, sa).bytes_sent();
            (n, Rec { kind: 0, da, sa, fc: 0, plen: 0, is_last: false })
        }
        1 => {
            let n = TelegramTx::new(&mut buf[off..]).send_short_confirmation().bytes_sent();
            (n, Rec { kind: 1, da: 0, sa: 0, fc: 0, plen: 0, is_last: false })
        }
        _ => {
            let (da, sa): (u8, u8) = (kani::any(), kani::any());
            kani::assume(da <= 127 && sa <= 127);
            let fc = any_function_code();
            let h = crate::fdl::DataTelegramHeader { da, sa, dsap: None, ssap: None, fc };
            let n = TelegramTx::new(&mut buf[off..]).send_data_telegram(h, 0, |_| ()).bytes_sent();
            (n, Rec { kind: 2, da, sa, fc: fc.to_byte(), plen: 0, is_last: false })
        }
    }
}

/// Two telegrams from the real encoder, delivered in two chunks cut at an arbitrary position,
/// with an arbitrary choice of helper after the first chunk: both telegrams arrive, in order,
/// once each.
#[kani::proof]
#[kani::unwind(9)]
fn c16_chunked_stream_q() {
    let mut stream = [0u8; 12];
    let (n1, r1) = emit(&mut stream, 0);
    let (n2, r2) = emit(&mut stream, n1);
    let total = n1 + n2;
    let cut: usize = kani::any();
    kani::assume(cut <= total);
    let mut phy = KPhy::<12, 4>::idle_with(stream, cut);
    let now = crate::time::Instant::ZERO;

    let mut got = [NOREC; 4];
    let mut ngot = 0usize;
    // first delivery: bytes [0, cut)
    let off_before = phy.rx_off;
    let mut first_last_flag = false;
    if kani::any() {
        phy.receive_telegram(now, |t| {
            if ngot < 4 {
                got[ngot] = rec_of(&t, false);
            }
            ngot += 1;
        });
    } else {
        phy.receive_all_telegrams(now, |t, is_last| {
            if ngot < 4 {
                got[ngot] = rec_of(&t, false);
            }
            ngot += 1;
            first_last_flag = is_last;
        });
    }
    if ngot == 0 {
        vassert!(phy.rx_off == off_before, "C16/no-loss: no byte of a still incomplete telegram is dropped");
    }
    // second delivery: the rest has arrived
    phy.rx_len = total;
    let mut last_flag = false;
    phy.receive_all_telegrams(now, |t, is_last| {
        if ngot < 4 {
            got[ngot] = rec_of(&t, false);
        }
        ngot += 1;
        last_flag = is_last;
    });
    vassert!(ngot == 2 && got[0] == r1 && got[1] == r2, "C16/chunking: the telegrams of the stream are received in order, each once, wherever the stream was cut");
    let second_delivered = phy.rx_calls > 0 && last_flag;
    vassert!(phy.rx_off == total && (second_delivered || (cut == total && first_last_flag)), "C16/chunking: the buffer is empty afterwards and the final telegram was flagged last");
    kani::cover!(cut > 0 && cut < n1, "cover: cut inside the first telegram");
    kani::cover!(cut > n1 && cut < total, "cover: cut inside the second telegram");
    kani::cover!(r1.kind == 2 && r2.kind == 0, "cover: data telegram followed by a token");
}

/// After undecodable data was discarded, a telegram arriving separately is received correctly.
#[kani::proof]
#[kani::unwind(9)]
fn c16_garbage_then_telegram_q() {
    let mut buf: [u8; 12] = kani::any();
    let glen: usize = kani::any();
    kani::assume(glen >= 1 && glen <= 4);
    kani::assume(matches!(Telegram::deserialize(&buf[..glen]), Some(Err(()))));
    let mut phy = KPhy::<12, 4>::idle_with(buf, glen);
    let now = crate::time::Instant::ZERO;
    let mut calls = 0;
    phy.receive_all_telegrams(now, |_, _| calls += 1);
    vassert!(calls == 0 && phy.rx_off == glen, "C16/discard: undecodable data is discarded entirely");
    // the next telegram arrives on its own
    let (n, r) = emit(&mut buf, glen);
    phy.rx = buf;
    phy.rx_len = glen + n;
    let mut got = NOREC;
    let res = phy.receive_all_telegrams(now, |t, is_last| {
        got = rec_of(&t, is_last);
        calls += 1;
    });
    vassert!(calls == 1 && res.is_some() && got == Rec { is_last: true, ..r }, "C16/recover: after discarding garbage the next telegram is received correctly");
    kani::cover!(r.kind == 2, "cover: data telegram after garbage");
}
