// harness file phy_mod (see /verif/DESIGN.md)
