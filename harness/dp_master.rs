// C14 (and DP parts of C05) harnesses: DP master cycle and event accounting (src/dp/master.rs).
//
// Included as `crate::dp::master::verif` under cfg(kani).

use super::*;
use crate::verif_support::*;

/// A DP master state in the given operating state (constructor for other harness files).
pub(crate) fn mk_dp_state(op: OperatingState) -> DpMasterState {
    DpMasterState {
        operating_state: op,
        last_global_control: None,
        cycle_state: CycleState::DataExchange(0),
        last_events: Default::default(),
    }
}

pub(crate) fn any_operating() -> OperatingState {
    if kani::any() {
        OperatingState::Operate
    } else {
        OperatingState::Clear
    }
}

use crate::dp::peripheral::verif::{any_fdl, light_peripheral, inv_dp, ref_goes_offline, ref_will_send, snap, PSnap};
use crate::dp::peripheral_set::verif::{mk_slot, peek, slots};
use crate::fdl::{FdlApplication, FdlActiveStation, HighPrioOnly, TelegramTx, DataTelegramHeader, FunctionCode, FrameCountBit, RequestType};

const MAXS: usize = 4;

fn occupied_from(m: &DpMaster, from: usize) -> Option<usize> {
    // constant trip count (MAXS) so that CBMC does not unroll on a symbolic bound
    let n = slots(&m.peripherals);
    let mut found = None;
    let mut i = 0;
    while i < MAXS {
        if i < n && i >= from && found.is_none() && peek(&m.peripherals, i).is_some() {
            found = Some(i);
        }
        i += 1;
    }
    found
}

/// Does the cycle index `c` denote slot `s` (first occupied slot at or after the index)?
fn resolves_to(m: &DpMaster, c: CycleState, s: usize) -> bool {
    match c {
        CycleState::DataExchange(j) => occupied_from(m, usize::from(j)) == Some(s),
        CycleState::CycleCompleted => false,
    }
}

/// One `transmit_telegram` call of a DP master with symbolic slots; see DESIGN §4 C14.
#[derive(Clone, Copy, PartialEq, Eq)]
enum Turn {
    /// the global-control telegram is due (low-priority turn, never sent or 50 slot times ago)
    GlobalControlDue,
    /// it is not due: the slot walk
    SlotWalk,
}

fn check_master_transmit(m: &mut DpMaster, fdl: &FdlActiveStation, turn: Turn) {
    let n = slots(&m.peripherals);
    let mut pre: [Option<PSnap>; MAXS] = [None; MAXS];
    let mut sends = [false; MAXS];
    let mut off = [false; MAXS];
    let mut i = 0;
    while i < n {
        if let Some(p) = peek(&m.peripherals, i) {
            kani::assume(inv_dp(p, fdl));
            pre[i] = Some(snap(p));
            sends[i] = ref_will_send(p, fdl);
            off[i] = ref_goes_offline(p, fdl);
        }
        i += 1;
    }
    let pre_cycle = m.state.cycle_state;
    let pre_lgc = m.state.last_global_control;
    let op = m.state.operating_state;
    let hp = if kani::any() { HighPrioOnly::Yes } else { HighPrioOnly::No };
    let now_us: u32 = kani::any();
    let now = crate::time::Instant::from_micros(now_us);
    if let Some(t) = pre_lgc {
        kani::assume(t <= now);
    }
    {
        let due = op != OperatingState::Stop
            && hp == HighPrioOnly::No
            && match pre_lgc {
                None => true,
                Some(t) => (now - t) >= fdl.parameters().slot_time() * 50,
            };
        kani::assume(due == (turn == Turn::GlobalControlDue));
    }

    let mut buf = [0u8; 24];
    let res = m.transmit_telegram(now, fdl, TelegramTx::new(&mut buf), hp);
    kani::cover!(true, "cover: the master's turn ends");

    // post snapshots, per-slot relation
    let events = m.state.last_events.clone();
    let mut transmitted: Option<usize> = None;
    let mut n_tx = 0;
    let mut n_off = 0;
    let mut off_slot = 0usize;
    let mut last_changed: Option<usize> = None;
    let mut i = 0;
    while i < n {
        if let Some(p) = peek(&m.peripherals, i) {
            let a = pre[i].unwrap();
            let b = snap(p);
            if b != a {
                last_changed = Some(i);
            }
            let unchanged = b == a;
            let declined = !sends[i] && b.rc == 0 && b.address == a.address && b.diag_needed == a.diag_needed
                && if off[i] { !b.live } else { b.state == a.state && b.fcb == a.fcb };
            let sent = sends[i] && b.rc == a.rc + 1 && b.state == a.state && b.fcb == a.fcb && b.address == a.address;
            vassert!(unchanged || declined || sent, "C14/turn: a peripheral is untouched, declines its turn, or sends exactly one request");
            if sent && !unchanged {
                transmitted = Some(i);
                n_tx += 1;
            }
            if a.live && !b.live {
                n_off += 1;
                off_slot = i;
            }
            vassert!(inv_dp(p, fdl), "C03/inv: representation invariant preserved for every slot");
        }
        i += 1;
    }
    vassert!(n_tx <= 1, "C14/turn: at most one request per call");

    // ---- events: nothing lost, nothing invented -------------------------------------------
    vassert!(n_off <= 1, "C14/events: at most one peripheral event can be reported per call, so at most one may occur");
    match events.peripheral {
        Some((hd, ev)) => {
            vassert!(n_off == 1 && ev == crate::dp::PeripheralEvent::Offline, "C14/events: the only event of a transmit turn is Offline, reported iff a peripheral went offline");
            vassert!(hd.address() == pre[off_slot].unwrap().address, "C14/events: the event names the peripheral that went offline");
            kani::cover!(true, "cover: Offline event reported from transmit_telegram");
        }
        None => vassert!(n_off == 0, "C14/events: an Offline transition is never lost"),
    }

    // ---- what was expected ---------------------------------------------------------------------
    if op == OperatingState::Stop {
        vassert!(res.is_none() && last_changed.is_none(), "C14/stop: nothing happens in Stop");
        vassert!(!events.cycle_completed && events.peripheral.is_none(), "C14/stop: nothing is reported in Stop");
        return;
    }
    let gc_due = hp == HighPrioOnly::No
        && match pre_lgc {
            None => true,
            Some(t) => (now - t) >= fdl.parameters().slot_time() * 50,
        };
    if gc_due {
        // Global control: DA 127, DSAP 58, SSAP 62, SDN low, [state, 0]
        let h = DataTelegramHeader {
            da: 127,
            sa: fdl.parameters().address,
            dsap: Some(58),
            ssap: Some(62),
            fc: FunctionCode::Request { fcb: FrameCountBit::Inactive, req: RequestType::SdnLow },
        };
        let cmd = if op == OperatingState::Clear { 0x02 } else { 0x00 };
        match res {
            Some(r) => {
                vassert!(r.expects_reply().is_none(), "C14/global-control: global control is an unacknowledged broadcast");
                match crate::fdl::Telegram::deserialize(&buf[..r.bytes_sent()]) {
                    Some(Ok((crate::fdl::Telegram::Data(t), _))) => {
                        vassert!(t.h == h && t.pdu.len() == 2 && t.pdu[0] == cmd && t.pdu[1] == 0, "C14/global-control: global control is the reference broadcast (DA 127, DSAP 58, SSAP 62, SDN low, [state, 0])");
                    }
                    _ => vassert!(false, "C14/global-control: global control is a well-formed data telegram"),
                }
            }
            None => vassert!(false, "C14/global-control: global control is sent when it is due"),
        }
        vassert!(m.state.cycle_state == pre_cycle && last_changed.is_none(), "C14/global-control: global control does not touch the cycle or any peripheral");
        vassert!(m.state.last_global_control == Some(now), "C14/global-control: the send time is recorded");
        vassert!(!events.cycle_completed && events.peripheral.is_none(), "C14/cycle: a global-control turn serves nobody: it reports neither a (second) cycle completion nor a peripheral event");
        kani::cover!(pre_lgc.is_some(), "cover: periodic global control");
        return;
    }
    vassert!(m.state.last_global_control == pre_lgc, "C14/global-control: no global control bookkeeping when none is sent");

    let idx0 = match pre_cycle {
        CycleState::CycleCompleted => {
            vassert!(res.is_none() && last_changed.is_none(), "C14/cycle: after a completed cycle the turn ends once without serving anybody");
            vassert!(m.state.cycle_state == CycleState::DataExchange(0), "C14/cycle: the next cycle starts at the first slot");
            vassert!(!events.cycle_completed, "C14/cycle: 'cycle completed' is not reported a second time");
            kani::cover!(true, "cover: turn after a completed cycle");
            return;
        }
        CycleState::DataExchange(j) => usize::from(j),
    };
    // first slot at/after the index that wants to send / that goes offline
    let mut first_sender: Option<usize> = None;
    let mut i = 0;
    while i < MAXS {
        if i < n && i >= idx0 && first_sender.is_none() && pre[i].is_some() && sends[i] {
            first_sender = Some(i);
        }
        if i < n && i < idx0 {
            if let (Some(a), Some(p)) = (pre[i], peek(&m.peripherals, i)) {
                vassert!(snap(p) == a, "C14/order: slots before the cycle index are not served again in this cycle");
            }
        }
        i += 1;
    }
    match res {
        Some(r) => {
            vassert!(transmitted.is_some() && transmitted == first_sender, "C14/order: the request comes from the first slot at or after the cycle index that has something to send");
            let s = transmitted.unwrap();
            vassert!(last_changed.unwrap() <= s, "C14/order: slots after the sender are untouched");
            vassert!(r.expects_reply() == Some(pre[s].unwrap().address), "C14/order: the request is addressed to that peripheral");
            vassert!(resolves_to(m, m.state.cycle_state, s), "C14/order: the cycle index stays at the sender until its reply or time-out");
            vassert!(!events.cycle_completed, "C14/cycle: no 'cycle completed' while a request is outstanding");
            kani::cover!(s > idx0, "cover: a declining slot is passed over before the sender");
        }
        None => {
            vassert!(n_tx == 0, "C14/turn: no request without a transmission result");
            if events.cycle_completed {
                vassert!(first_sender.is_none(), "C14/cycle: 'cycle completed' only when every remaining peripheral had its turn and declined");
                vassert!(m.state.cycle_state == CycleState::DataExchange(0), "C14/cycle: the next cycle starts at the first slot");
                // everybody at/after the index was visited: those to be declared offline are offline now
                let mut i = 0;
                while i < MAXS {
                    if i < n && i >= idx0 {
                        if let Some(p) = peek(&m.peripherals, i) {
                            vassert!(!off[i] || !snap(p).live, "C14/cycle: a completed cycle has given every remaining peripheral its turn");
                        }
                    }
                    i += 1;
                }
                kani::cover!(occupied_from(m, 0).is_none(), "cover: cycle completes with no peripheral configured");
                kani::cover!(n_off == 1, "cover: cycle completes with an Offline event");
            } else {
                // the turn ended early: only legitimate to report an event
                vassert!(n_off == 1, "C14/cycle: a turn without request and without 'cycle completed' only ends early to report an event");
                match first_sender {
                    Some(fs) => vassert!(off_slot < fs, "C14/order: nobody with something to send is passed over"),
                    None => {}
                }
                let next = occupied_from(m, off_slot + 1);
                vassert!(next.is_some() && resolves_to(m, m.state.cycle_state, next.unwrap()), "C14/order: the cycle continues with the slot after the one that raised the event");
                vassert!(last_changed.unwrap() <= off_slot, "C14/order: slots after the reporting one are untouched");
                kani::cover!(true, "cover: turn ended early to report an Offline event");
            }
        }
    }
}

fn any_master_state(nslots: usize) -> DpMasterState {
    let op = match kani::any::<u8>() {
        0 => OperatingState::Stop,
        1 => OperatingState::Clear,
        _ => OperatingState::Operate,
    };
    let cycle_state = if kani::any() {
        CycleState::CycleCompleted
    } else {
        let j: u8 = kani::any();
        kani::assume(usize::from(j) < nslots || j == 0);
        CycleState::DataExchange(j)
    };
    DpMasterState {
        operating_state: op,
        last_global_control: if kani::any() { Some(crate::time::Instant::from_micros(kani::any::<u32>())) } else { None },
        cycle_state,
        last_events: Default::default(),
    }
}

macro_rules! slot_bufs {
    ($i:ident, $q:ident, $d:ident) => {
        let mut $i = [0u8; 1];
        let mut $q = [0u8; 1];
        #[allow(unused)]
        let $d = ();
    };
}

macro_rules! any_slot {
    ($i:ident, $q:ident, $d:ident, $user:ident, $cfg:ident) => {
        mk_slot(if kani::any() {
            Some(light_peripheral(
                &mut $i[..],
                &mut $q[..],
                if kani::any() { Some(&$user[..]) } else { None },
                if kani::any() { Some(&$cfg[..]) } else { None },
            ))
        } else {
            None
        })
    };
}

macro_rules! fixed_slot {
    (true, $i:ident, $q:ident, $d:ident, $user:ident, $cfg:ident) => {
        mk_slot(Some(light_peripheral(
            &mut $i[..],
            &mut $q[..],
            if kani::any() { Some(&$user[..]) } else { None },
            if kani::any() { Some(&$cfg[..]) } else { None },
        )))
    };
    (false, $i:ident, $q:ident, $d:ident, $user:ident, $cfg:ident) => {
        mk_slot(None)
    };
}

/// Two storage slots with a CONCRETE occupancy pattern (the four patterns are four harnesses):
/// a symbolic `Option<Peripheral>` makes CBMC copy the whole peripheral under a symbolic guard
/// and dominated the cost of the symbolic-occupancy harness.
macro_rules! master_2slots {
    ($name:ident, $o0:tt, $o1:tt) => {
        #[kani::proof]
        #[kani::unwind(6)]
        #[kani::stub(crate::dp::peripheral::Peripheral::transmit_telegram, crate::dp::peripheral::verif::abs_transmit_telegram)]
        fn $name() {
            let fdl = any_fdl();
            let user: [u8; 1] = kani::any();
            let cfg: [u8; 1] = kani::any();
            slot_bufs!(i0, q0, d0);
            slot_bufs!(i1, q1, d1);
            let mut storage = [fixed_slot!($o0, i0, q0, d0, user, cfg), fixed_slot!($o1, i1, q1, d1, user, cfg)];
            let mut m = DpMaster::new(&mut storage[..]);
            m.state = any_master_state(2);
            check_master_transmit(&mut m, &fdl, Turn::SlotWalk);
        }
    };
}
master_2slots!(c14_master_transmit_2slots_both_q, true, true);
master_2slots!(c14_master_transmit_2slots_first_q, true, false);
master_2slots!(c14_master_transmit_2slots_second_q, false, true);
master_2slots!(c14_master_transmit_2slots_none_q, false, false);

#[kani::proof]
#[kani::unwind(10)]
#[kani::stub(crate::dp::peripheral::Peripheral::transmit_telegram, crate::dp::peripheral::verif::abs_transmit_telegram)]
fn c14_master_transmit_2slots_q() {
    let fdl = any_fdl();
    let user: [u8; 1] = kani::any();
    let cfg: [u8; 1] = kani::any();
    slot_bufs!(i0, q0, d0);
    slot_bufs!(i1, q1, d1);
    let mut storage = [any_slot!(i0, q0, d0, user, cfg), any_slot!(i1, q1, d1, user, cfg)];
    let mut m = DpMaster::new(&mut storage[..]);
    m.state = any_master_state(2);
    check_master_transmit(&mut m, &fdl, Turn::SlotWalk);
}

#[kani::proof]
#[kani::unwind(10)]
#[kani::stub(crate::dp::peripheral::Peripheral::transmit_telegram, crate::dp::peripheral::verif::abs_transmit_telegram)]
fn c14_master_transmit_3slots_t() {
    let fdl = any_fdl();
    let user: [u8; 1] = kani::any();
    let cfg: [u8; 1] = kani::any();
    slot_bufs!(i0, q0, d0);
    slot_bufs!(i1, q1, d1);
    slot_bufs!(i2, q2, d2);
    let mut storage = [
        any_slot!(i0, q0, d0, user, cfg),
        any_slot!(i1, q1, d1, user, cfg),
        any_slot!(i2, q2, d2, user, cfg),
    ];
    let mut m = DpMaster::new(&mut storage[..]);
    m.state = any_master_state(3);
    check_master_transmit(&mut m, &fdl, Turn::SlotWalk);
}

/// The empty DP master (no peripheral configured) ends its turn.  Small dedicated harness: the
/// slot loop's bound is derived (it must end after at most two passes for zero slots), so an
/// unwinding failure here is a hang.
#[kani::proof]
#[kani::unwind(5)]
fn c14_master_empty_terminates() {
    let fdl = any_fdl();
    // one storage slot, unoccupied (a zero-length storage slice has a dangling base pointer,
    // which CBMC's pointer model does not compare reliably)
    let mut storage = [mk_slot(None)];
    let mut m = DpMaster::new(&mut storage[..]);
    m.state = any_master_state(1);
    let mut buf = [0u8; 24];
    let now = crate::time::Instant::from_micros(kani::any::<u32>());
    // high-priority-only turn: global control is never due, the slot loop is entered directly
    let res = m.transmit_telegram(now, &fdl, TelegramTx::new(&mut buf), HighPrioOnly::Yes);
    vassert!(res.is_none(), "C14/turn: a master without peripherals has nothing to send");
    if m.state.operating_state != OperatingState::Stop {
        vassert!(m.state.cycle_state == CycleState::DataExchange(0), "C14/cycle: the next cycle starts at the first slot");
    }
    kani::cover!(m.state.last_events.cycle_completed, "cover: empty cycle completes");
}

/// Concrete native witness for the hang the harness above reports as an unwinding failure
/// (Kani produces no playback test for unwinding assertions).  Run by check.py under a
/// wall-clock watchdog: not returning is the reproduction.
#[cfg(test)]
#[test]
fn hang_c14_master_empty() {
    let fdl = crate::fdl::FdlActiveStation::new(Default::default());
    let mut storage = [mk_slot(None), mk_slot(None)];
    let mut m = DpMaster::new(&mut storage[..]);
    m.state.operating_state = OperatingState::Operate;
    let mut buf = [0u8; 24];
    let res = m.transmit_telegram(crate::time::Instant::ZERO, &fdl, TelegramTx::new(&mut buf), HighPrioOnly::Yes);
    vassert!(res.is_none());
}


// ==========================================================================================
// receive_reply routing: exactly the addressed slot is touched, the cycle advances by one
// occupied slot, the peripheral's event is reported
// ==========================================================================================

fn check_master_receive(m: &mut DpMaster, fdl: &FdlActiveStation) {
    let n = slots(&m.peripherals);
    let mut pre: [Option<PSnap>; MAXS] = [None; MAXS];
    let mut i = 0;
    while i < n {
        if let Some(p) = peek(&m.peripherals, i) {
            kani::assume(inv_dp(p, fdl));
            pre[i] = Some(snap(p));
        }
        i += 1;
    }
    // a reply can only be outstanding for the slot the cycle index denotes (C15 + transmit lemma)
    let idx = match m.state.cycle_state {
        CycleState::DataExchange(j) => usize::from(j),
        CycleState::CycleCompleted => {
            kani::assume(false);
            0
        }
    };
    let s = match occupied_from(m, idx) {
        Some(s) => s,
        None => {
            kani::assume(false);
            0
        }
    };
    let addr = pre[s].unwrap().address;
    let now = crate::time::Instant::from_micros(kani::any::<u32>());
    let telegram = crate::fdl::Telegram::ShortConfirmation(crate::fdl::ShortConfirmation);

    m.receive_reply(now, fdl, addr, telegram);

    let events = m.state.last_events.clone();
    let mut i = 0;
    while i < n {
        if i != s {
            if let (Some(a), Some(p)) = (pre[i], peek(&m.peripherals, i)) {
                vassert!(snap(p) == a, "C14/routing: a reply touches only the peripheral it was addressed to");
            }
        }
        i += 1;
    }
    match occupied_from(m, s + 1) {
        Some(next) => {
            vassert!(resolves_to(m, m.state.cycle_state, next), "C14/order: after a reply the cycle continues with the next occupied slot");
            vassert!(!events.cycle_completed, "C14/cycle: 'cycle completed' is not reported before the last peripheral had its turn");
            kani::cover!(next > s + 1, "cover: an unoccupied slot is skipped");
        }
        None => {
            vassert!(m.state.cycle_state == CycleState::CycleCompleted && events.cycle_completed, "C14/cycle: the reply of the last peripheral completes the cycle, reported once");
            kani::cover!(true, "cover: cycle completed by the last reply");
        }
    }
    match events.peripheral {
        Some((hd, _ev)) => vassert!(hd.address() == addr, "C14/events: the reported event names the peripheral that replied"),
        None => {}
    }
}

#[kani::proof]
#[kani::unwind(8)]
#[kani::stub(crate::dp::peripheral::Peripheral::receive_reply, crate::dp::peripheral::verif::abs_receive_reply)]
fn c14_master_receive_3slots_q() {
    let fdl = any_fdl();
    let user: [u8; 1] = kani::any();
    let cfg: [u8; 1] = kani::any();
    slot_bufs!(i0, q0, d0);
    slot_bufs!(i1, q1, d1);
    slot_bufs!(i2, q2, d2);
    let mut storage = [
        any_slot!(i0, q0, d0, user, cfg),
        any_slot!(i1, q1, d1, user, cfg),
        any_slot!(i2, q2, d2, user, cfg),
    ];
    let mut m = DpMaster::new(&mut storage[..]);
    m.state = any_master_state(3);
    check_master_receive(&mut m, &fdl);
}

/// Concrete native witness for F11: two peripherals whose Set_Prm is answered by a data telegram
/// instead of a short confirmation (an admissible but rejected reply: the retry counter keeps
/// counting while the cycle moves on) exceed their retry limit in the same master turn.
#[cfg(test)]
#[test]
fn witness_f11_two_offline_events() {
    let fdl = crate::fdl::FdlActiveStation::new(Default::default());
    let mut pi = [[0u8; 1]; 4];
    let [a, b, c, d] = &mut pi;
    let prm = [0u8; 1];
    let opts = || crate::dp::PeripheralOptions { user_parameters: Some(&prm[..]), config: Some(&prm[..]), ..Default::default() };
    let mut storage = [
        mk_slot(Some(crate::dp::Peripheral::new(10, opts(), &mut a[..], &mut b[..]))),
        mk_slot(Some(crate::dp::Peripheral::new(11, opts(), &mut c[..], &mut d[..]))),
    ];
    let mut m = DpMaster::new(&mut storage[..]);
    m.enter_operate();
    let mut buf = [0u8; 32];
    let now = crate::time::Instant::ZERO;
    let mut seen_diag = [false; 2];
    for _turn in 0..40 {
        // high-priority-only turns: global control never interferes
        let r = m.transmit_telegram(now, &fdl, TelegramTx::new(&mut buf), HighPrioOnly::Yes);
        if let Some(addr) = r.and_then(|r| r.expects_reply()) {
            let k = usize::from(addr - 10);
            if !seen_diag[k] {
                // the first probe is answered properly: the peripheral comes online
                seen_diag[k] = true;
                let pdu = [0x02, 0x05, 0x00, 0xff, 0x00, 0x00];
                let t = crate::fdl::Telegram::Data(crate::fdl::DataTelegram {
                    h: DataTelegramHeader { da: 1, sa: addr, dsap: Some(62), ssap: Some(60), fc: FunctionCode::Response { state: crate::fdl::ResponseState::Slave, status: crate::fdl::ResponseStatus::DataLow } },
                    pdu: &pdu,
                });
                m.receive_reply(now, &fdl, addr, t);
            } else {
                // every Set_Prm is answered by a data telegram instead of SC
                let pdu = [0u8; 1];
                let t = crate::fdl::Telegram::Data(crate::fdl::DataTelegram {
                    h: DataTelegramHeader { da: 1, sa: addr, dsap: None, ssap: None, fc: FunctionCode::Response { state: crate::fdl::ResponseState::Slave, status: crate::fdl::ResponseStatus::DataLow } },
                    pdu: &pdu,
                });
                m.receive_reply(now, &fdl, addr, t);
            }
        }
        let _ = m.take_last_events();
    }
}

/// The global-control turn (no peripheral is touched by it; an unoccupied slot keeps the
/// alternative path - the slot walk - trivial for the symbolic executor).
#[kani::proof]
#[kani::unwind(10)]
#[kani::stub(crate::dp::peripheral::Peripheral::transmit_telegram, crate::dp::peripheral::verif::abs_transmit_telegram)]
fn c14_master_global_control() {
    let fdl = any_fdl();
    let user: [u8; 1] = kani::any();
    let cfg: [u8; 1] = kani::any();
    let _ = (user, cfg);
    let mut storage = [mk_slot(None)];
    let mut m = DpMaster::new(&mut storage[..]);
    m.state = any_master_state(1);
    check_master_transmit(&mut m, &fdl, Turn::GlobalControlDue);
}

/// Zero-length storage (`DpMaster::new(vec![])` before any peripheral is added, or `&mut []`):
/// the turn ends.  The empty slice is taken from a one-element array so that its base pointer is a
/// real object (a dangling zero-length slice pointer is not compared reliably by CBMC).
#[kani::proof]
#[kani::unwind(5)]
fn c14_master_zero_length_storage() {
    let fdl = any_fdl();
    let mut backing = [mk_slot(None)];
    let mut m = DpMaster::new(&mut backing[..0]);
    m.state = any_master_state(0);
    let mut buf = [0u8; 24];
    let now = crate::time::Instant::from_micros(kani::any::<u32>());
    let res = m.transmit_telegram(now, &fdl, TelegramTx::new(&mut buf), HighPrioOnly::Yes);
    vassert!(res.is_none(), "C14/turn: a master without peripherals has nothing to send");
    if m.state.operating_state != OperatingState::Stop {
        vassert!(m.state.cycle_state == CycleState::DataExchange(0), "C14/cycle: the next cycle starts at the first slot");
    }
    kani::cover!(m.state.last_events.cycle_completed, "cover: empty cycle completes");
}
