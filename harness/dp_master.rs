// C14 (and DP parts of C05) harnesses: DP master cycle and event accounting (src/dp/master.rs).
//
// Included as `crate::dp::master::verif` under cfg(kani).

use super::*;
use crate::verif_support::*;

/// A DP master state in the given operating state (constructor for other harness files).
pub(crate) fn mk_dp_state(op: OperatingState) -> DpMasterState {
    DpMasterState {
        operating_state: op,
        last_global_control: None,
        cycle_state: CycleState::DataExchange(0),
        last_events: Default::default(),
    }
}

pub(crate) fn any_operating() -> OperatingState {
    if kani::any() {
        OperatingState::Operate
    } else {
        OperatingState::Clear
    }
}
