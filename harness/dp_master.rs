// harness file dp_master (see /verif/DESIGN.md)
