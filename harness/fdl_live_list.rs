// C18 harnesses (live list part): src/fdl/live_list.rs, as crate::fdl::live_list::verif.
//
// One-step lemmas from a symbolic LiveList state; the 126-address sweep is the paper step
// (DESIGN §4 C18).

use super::*;
use crate::fdl::{DataTelegram, DataTelegramHeader, FdlApplication, FunctionCode, HighPrioOnly, ShortConfirmation, Telegram, TelegramTx};
use crate::verif_support::*;

fn any_live_list() -> LiveList {
    let mut stations: bitvec::BitArr!(for 128) = bitvec::array::BitArray::ZERO;
    stations.data = [kani::any(), kani::any()];
    let cursor: u8 = kani::any();
    kani::assume(cursor <= 125);
    LiveList {
        stations,
        cursor,
        // events are collected after every poll (the property's premise)
        pending_event: None,
        current_address_done: kani::any(),
    }
}

fn bit(words: &[usize; 2], a: u8) -> bool {
    words[usize::from(a) / 64] >> (usize::from(a) % 64) & 1 != 0
}

fn others_unchanged(before: &[usize; 2], after: &[usize; 2], a: u8) -> bool {
    let mut mask = [usize::MAX; 2];
    mask[usize::from(a) / 64] &= !(1usize << (usize::from(a) % 64));
    before[0] & mask[0] == after[0] & mask[0] && before[1] & mask[1] == after[1] & mask[1]
}

#[kani::proof]
#[kani::unwind(10)]
fn c18_livelist_transmit() {
    let fdl = any_fdl();
    let mut ll = any_live_list();
    let pre_cursor = ll.cursor;
    let ts = fdl.parameters().address;
    let succ = |a: u8| if a >= 125 { 0 } else { a + 1 };
    let pre_done = ll.current_address_done;
    let pre_words = ll.stations.data;
    let mut buf = [0u8; 8];
    let now = crate::time::Instant::from_micros(kani::any::<u32>());
    let hp = if kani::any() { HighPrioOnly::Yes } else { HighPrioOnly::No };
    let res = ll.transmit_telegram(now, &fdl, TelegramTx::new(&mut buf), hp);
    vassert!(ll.stations.data[0] == pre_words[0] && ll.stations.data[1] == pre_words[1], "C18/list: asking for a telegram never changes the list");
    if pre_done {
        vassert!(res.is_none(), "C18/sweep: after an address is done the application ends its turn");
        vassert!(ll.cursor == succ(pre_cursor) || (succ(pre_cursor) == ts && ll.cursor == succ(ts)), "C18/sweep: the sweep advances to the next address, wrapping after 125 (only the scanning station's own address may be skipped)");
        vassert!(!ll.current_address_done, "C18/sweep: the next address is pending");
        kani::cover!(pre_cursor == 125, "cover: sweep wraps");
    } else if res.is_none() {
        // declining is acceptable only when the station offers nothing but a high-priority cycle,
        // and it must not lose the pending address
        vassert!(hp == HighPrioOnly::Yes, "C18/sweep: a pending address is probed when the station offers a regular cycle");
        vassert!(ll.cursor == pre_cursor && !ll.current_address_done, "C18/sweep: a declined turn does not skip the pending address");
    } else {
        let r = res.unwrap();
        // the probe goes to the cursor address; a cursor sitting on the scanning station's own
        // address may move on by one first (nobody answers there, the property excludes it)
        let probed = ll.cursor;
        vassert!(probed == pre_cursor || (pre_cursor == ts && probed == succ(ts)), "C18/sweep: the probed address is the cursor address (only the scanning station's own address may be skipped)");
        let h = DataTelegramHeader {
            da: probed,
            sa: ts,
            dsap: None,
            ssap: None,
            fc: FunctionCode::Request { fcb: crate::fdl::FrameCountBit::Inactive, req: crate::fdl::RequestType::FdlStatus },
        };
        let mut expect = [0u8; 8];
        let elen = ref_encode(&h, 0, |_| 0, &mut expect);
        vassert!(r.bytes_sent() == elen && r.expects_reply() == Some(probed), "C18/probe: a status request to the cursor address, expecting its reply");
        let mut i = 0;
        while i < elen {
            vassert!(buf[i] == expect[i], "C18/probe: the probe is an FDL status request from this station to the cursor address");
            i += 1;
        }
        vassert!(pre_cursor <= 125, "C18/probe: only addresses 0..125 are probed");
        vassert!(probed <= 125, "C18/probe: only addresses 0..125 are probed");
        vassert!(!ll.current_address_done, "C18/sweep: the cursor stays until reply or time-out");
        kani::cover!(true, "cover: probe sent");
    }
    vassert!(ll.cursor <= 125, "C18/probe: the cursor stays within 0..125");
}

#[kani::proof]
#[kani::unwind(10)]
fn c18_livelist_reply_or_timeout() {
    let fdl = any_fdl();
    let mut ll = any_live_list();
    kani::assume(!ll.current_address_done); // a request is outstanding
    let addr = ll.cursor;
    let pre_words = ll.stations.data;
    let was_set = bit(&pre_words, addr);
    let now = crate::time::Instant::from_micros(kani::any::<u32>());
    if kani::any() {
        // a reply, as the FDL layer admits it
        let state = any_response_state();
        let status = any_response_status();
        let pdu: [u8; 2] = kani::any();
        let plen: usize = kani::any();
        kani::assume(plen <= 2);
        let is_sc: bool = kani::any();
        let t = if is_sc {
            Telegram::ShortConfirmation(ShortConfirmation)
        } else {
            Telegram::Data(DataTelegram {
                h: DataTelegramHeader { da: fdl.parameters().address, sa: addr, dsap: any_sap(), ssap: any_sap(), fc: FunctionCode::Response { state, status } },
                pdu: &pdu[..plen],
            })
        };
        ll.receive_reply(now, &fdl, addr, t);
        vassert!(bit(&ll.stations.data, addr), "C18/list: an answering address is in the list");
        vassert!(others_unchanged(&pre_words, &ll.stations.data, addr), "C18/list: no other address changes");
        let ev = ll.take_last_event();
        if was_set {
            vassert!(ev.is_none(), "C18/events: no event for a station that is already known");
        } else if !is_sc {
            vassert!(ev == Some(StationEvent::Discovered(StationDescription { address: addr, state })), "C18/events: Discovered, with the reported station type, exactly when the address was not in the list");
            kani::cover!(true, "cover: station discovered");
        }
    } else {
        ll.handle_timeout(now, &fdl, addr);
        vassert!(!bit(&ll.stations.data, addr), "C18/list: a silent address is not in the list");
        vassert!(others_unchanged(&pre_words, &ll.stations.data, addr), "C18/list: no other address changes");
        let ev = ll.take_last_event();
        vassert!(ev == if was_set { Some(StationEvent::Lost(addr)) } else { None }, "C18/events: Lost exactly when the address was in the list");
        kani::cover!(was_set, "cover: station lost");
    }
    vassert!(ll.current_address_done && ll.cursor == addr, "C18/sweep: the address is done, the cursor moves with the next turn");
    vassert!(ll.take_last_event().is_none(), "C18/events: an event is handed out once");
}

// Bounded history: K consecutive address visits (ask, answer or stay silent, ask again = advance)
// from an arbitrary live-list state against a stable responder population with symbolic reply
// losses.  Composition of the one-step lemmas over several callbacks: consecutive addresses are
// visited in sweep order, an address is probed once per visit, after a visit without loss the
// list agrees with the population at that address and keeps agreeing, and the events handed out
// alternate per address (checked against a ghost copy of the list).
fn livelist_history<const K: usize>() {
    let fdl = any_fdl();
    let ts = fdl.parameters().address;
    let mut ll = any_live_list();
    let responders: [usize; 2] = [kani::any(), kani::any()];
    let succ = |a: u8| if a >= 125 { 0 } else { a + 1 };
    let mut ghost = ll.stations.data;
    let mut visited: [u8; K] = [0; K];
    let mut clean: [bool; K] = [false; K];
    let mut prev: Option<u8> = None;
    let mut k = 0;
    while k < K {
        let mut buf = [0u8; 8];
        let now = crate::time::Instant::from_micros(kani::any::<u32>());
        let mut res = ll.transmit_telegram(now, &fdl, TelegramTx::new(&mut buf), HighPrioOnly::No);
        if res.is_none() {
            // the application ended its turn (address done).  A late token may come in between: the
            // station then offers only a high-priority cycle, which may be declined or used, but
            // must not lose the pending address.  The next regular turn must probe.
            if kani::any() {
                let late = ll.transmit_telegram(now, &fdl, TelegramTx::new(&mut buf), HighPrioOnly::Yes);
                if late.is_some() {
                    res = late;
                }
            }
            if res.is_none() {
                res = ll.transmit_telegram(now, &fdl, TelegramTx::new(&mut buf), HighPrioOnly::No);
            }
        }
        vassert!(res.is_some(), "C18/sweep: at most one empty turn between two probes");
        let p = res.unwrap().expects_reply().unwrap();
        vassert!(p <= 125, "C18/probe: only addresses 0..125 are probed");
        if let Some(q) = prev {
            vassert!(p == succ(q) || (succ(q) == ts && p == succ(ts)), "C18/sweep: consecutive visits probe consecutive addresses (only the scanning station's own address may be skipped)");
        }
        prev = Some(p);
        visited[k] = p;
        let lost: bool = kani::any();
        let answers = bit(&responders, p) && p != ts;
        let was = bit(&ghost, p);
        if answers && !lost {
            let state = any_response_state();
            let t = Telegram::Data(DataTelegram {
                h: DataTelegramHeader { da: ts, sa: p, dsap: None, ssap: None, fc: FunctionCode::Response { state, status: crate::fdl::ResponseStatus::Ok } },
                pdu: &[],
            });
            ll.receive_reply(now, &fdl, p, t);
            let ev = ll.take_last_event();
            vassert!(ev == if was { None } else { Some(StationEvent::Discovered(StationDescription { address: p, state })) }, "C18/events: Discovered exactly when the address was not in the list (history)");
            ghost[usize::from(p) / 64] |= 1usize << (usize::from(p) % 64);
        } else {
            ll.handle_timeout(now, &fdl, p);
            let ev = ll.take_last_event();
            vassert!(ev == if was { Some(StationEvent::Lost(p)) } else { None }, "C18/events: Lost exactly when the address was in the list (history)");
            ghost[usize::from(p) / 64] &= !(1usize << (usize::from(p) % 64));
        }
        clean[k] = !(answers && lost);
        vassert!(ll.stations.data[0] == ghost[0] && ll.stations.data[1] == ghost[1], "C18/list: the list changes only at the probed address, as the events say (history)");
        k += 1;
    }
    // every address whose last visit was not hit by a loss agrees with the population
    let mut i = 0;
    while i < K {
        let a = visited[i];
        let mut later = false;
        let mut j = i + 1;
        while j < K {
            later |= visited[j] == a;
            j += 1;
        }
        if clean[i] && !later && a != ts {
            vassert!(bit(&ll.stations.data, a) == bit(&responders, a), "C18/list: after a loss-free visit the list agrees with the population at that address (history)");
        }
        i += 1;
    }
    kani::cover!(visited[K - 1] < visited[0], "cover: the history wraps around address 125");
    kani::cover!(clean[K - 1] && bit(&responders, visited[K - 1]) && visited[K - 1] != ts, "cover: a responder is listed at the end of the history");
}

#[kani::proof]
#[kani::unwind(10)]
fn c18_livelist_history_q() {
    livelist_history::<4>();
}

#[kani::proof]
#[kani::unwind(14)]
fn c18_livelist_history_t() {
    livelist_history::<12>();
}
