// harness file fdl_live_list (see /verif/DESIGN.md)
