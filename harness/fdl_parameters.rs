// harness file fdl_parameters (see /verif/DESIGN.md)
