// C01 time lemmas and C03 watchdog factors (src/fdl/parameters.rs, src/lib.rs Baudrate), as
// crate::fdl::parameters::verif.

use super::*;
#[allow(unused_imports)]
use crate::verif_support::*;

fn any_baud() -> crate::Baudrate {
    match kani::any::<u8>() {
        0 => crate::Baudrate::B9600,
        1 => crate::Baudrate::B19200,
        2 => crate::Baudrate::B31250,
        3 => crate::Baudrate::B45450,
        4 => crate::Baudrate::B93750,
        5 => crate::Baudrate::B187500,
        6 => crate::Baudrate::B500000,
        7 => crate::Baudrate::B1500000,
        8 => crate::Baudrate::B3000000,
        9 => crate::Baudrate::B6000000,
        _ => crate::Baudrate::B12000000,
    }
}

fn ref_rate(b: crate::Baudrate) -> u64 {
    match b {
        crate::Baudrate::B9600 => 9_600,
        crate::Baudrate::B19200 => 19_200,
        crate::Baudrate::B31250 => 31_250,
        crate::Baudrate::B45450 => 45_450,
        crate::Baudrate::B93750 => 93_750,
        crate::Baudrate::B187500 => 187_500,
        crate::Baudrate::B500000 => 500_000,
        crate::Baudrate::B1500000 => 1_500_000,
        crate::Baudrate::B3000000 => 3_000_000,
        crate::Baudrate::B6000000 => 6_000_000,
        crate::Baudrate::B12000000 => 12_000_000,
    }
}

/// bits -> time conversion: never longer than the exact time, less than 1 us shorter.
fn bits_to_time_exact(baud: crate::Baudrate) {
    let bits: u32 = kani::any();
    // Everything the stack converts stays below 2^25 bit times (token time-out: slot bits times
    // (6 + 2*125); TTR up to 2^24).  The full range gets a verdict only at 9.6 and 19.2 kbit/s
    // (about 30 s); at the other rates the 64-bit multiply/divide equivalence did not finish in
    // 15 minutes, there the range is 2^17 bit times (covers the station harnesses' time-outs).
    let max_bits: u32 = match baud {
        crate::Baudrate::B9600 | crate::Baudrate::B19200 => 1 << 25,
        _ => 1 << 17,
    };
    kani::assume(bits <= max_bits);
    let rate = ref_rate(baud);
    vassert!(baud.to_rate() == rate, "C01/rate: the baud rate's numeric value");
    let t = baud.bits_to_time(bits).total_micros();
    // floor(bits * 10^6 / rate) without dividing: t*rate <= bits*10^6 < (t+1)*rate
    let exact = u64::from(bits) * 1_000_000;
    vassert!(t * rate <= exact && exact < (t + 1) * rate, "C01/conversion: a bit count converts to the exact time rounded down, i.e. less than 1 us short");
    kani::cover!(bits > 1000 && t > 0, "cover: a large bit count converted");
    kani::cover!(t * rate < exact, "cover: conversion rounds down");
}

/// The numeric value of every baud rate (the conversion lemmas are per rate; this one ties all
/// eleven table entries to the reference).
#[kani::proof]
fn c01_rate_table() {
    let b = any_baud();
    vassert!(b.to_rate() == ref_rate(b), "C01/rate: the baud rate's numeric value");
    // the conversion is the same expression for every rate: spot-check it on small counts
    let bits: u32 = kani::any();
    kani::assume(bits <= 64);
    let t = b.bits_to_time(bits).total_micros();
    let exact = u64::from(bits) * 1_000_000;
    vassert!(t * ref_rate(b) <= exact && exact < (t + 1) * ref_rate(b), "C01/conversion: a bit count converts to the exact time rounded down, i.e. less than 1 us short");
    kani::cover!(matches!(b, crate::Baudrate::B45450) && bits == 33, "cover: 33 bit times at 45.45 kbit/s");
}

macro_rules! per_baud {
    ($name:ident, $f:ident, $b:ident) => {
        #[kani::proof]
        #[kani::unwind(10)]
        fn $name() {
            $f(crate::Baudrate::$b);
        }
    };
}

per_baud!(c01_bits_to_time_b9600, bits_to_time_exact, B9600);
per_baud!(c01_bits_to_time_b19200, bits_to_time_exact, B19200);
per_baud!(c01_bits_to_time_b31250, bits_to_time_exact, B31250);
per_baud!(c01_bits_to_time_b45450, bits_to_time_exact, B45450);
per_baud!(c01_bits_to_time_b93750, bits_to_time_exact, B93750);
per_baud!(c01_bits_to_time_b187500, bits_to_time_exact, B187500);
per_baud!(c01_bits_to_time_b500000, bits_to_time_exact, B500000);
per_baud!(c01_bits_to_time_b1500000, bits_to_time_exact, B1500000);
per_baud!(c01_bits_to_time_b3000000, bits_to_time_exact, B3000000);
per_baud!(c01_bits_to_time_b6000000, bits_to_time_exact, B6000000);
per_baud!(c01_bits_to_time_b12000000, bits_to_time_exact, B12000000);

/// Token-lost time-outs: 6 slot times plus 2 per address, so that stations with different
/// addresses never time out together (the lower address claims first and is heard by the others).
fn tto_stagger(baud: crate::Baudrate) {
    // Symbolic slot_bits x symbolic address (a 64-bit multiply/divide equivalence) gave no verdict
    // within an hour at any rate; the slot time is therefore taken from eight concrete values - the
    // rate's minimum, 100, the 300 bit of the station harnesses, 500, 1000, 4095, 8191 and the
    // 14-bit maximum - with the address symbolic.
    let slots = [min_slot_bits(baud), 100, 300, 500, 1000, 4095, 8191, 16383];
    let mut k = 0;
    while k < 8 {
        let slot_bits = slots[k];
        k += 1;
        if slot_bits < min_slot_bits(baud) {
            continue;
        }
        tto_stagger_at(baud, slot_bits);
    }
    kani::cover!(true, "cover: all slot times done");
}

fn tto_stagger_at(baud: crate::Baudrate, slot_bits: u16) {
    // one address step; any pair a < b follows by induction over the steps
    let a: u8 = kani::any();
    kani::assume(a <= 124);
    let pa = Parameters { address: a, baudrate: baud, slot_bits, ..Default::default() };
    let pb = Parameters { address: a + 1, baudrate: baud, slot_bits, ..Default::default() };
    let ta = pa.token_lost_timeout().total_micros();
    let tb = pb.token_lost_timeout().total_micros();
    let slot = pa.slot_time().total_micros();
    vassert!(ta >= 6 * slot, "C01/tto: the token-lost time-out is at least six slot times");
    vassert!(tb >= ta + 2 * slot, "C01/tto-stagger: the time-outs of stations with adjacent addresses differ by at least two slot times (hence 2*(b-a) for any pair)");
    vassert!(tb <= ta + 2 * slot + 2, "C01/tto-stagger: ... and by no more than two slot times (up to rounding)");
    kani::cover!(a == 0, "cover: lowest address");
}

per_baud!(c01_tto_stagger_b9600, tto_stagger, B9600);
per_baud!(c01_tto_stagger_b19200, tto_stagger, B19200);
per_baud!(c01_tto_stagger_b31250, tto_stagger, B31250);
per_baud!(c01_tto_stagger_b45450, tto_stagger, B45450);
per_baud!(c01_tto_stagger_b93750, tto_stagger, B93750);
per_baud!(c01_tto_stagger_b187500, tto_stagger, B187500);
per_baud!(c01_tto_stagger_b500000, tto_stagger, B500000);
per_baud!(c01_tto_stagger_b1500000, tto_stagger, B1500000);
per_baud!(c01_tto_stagger_b3000000, tto_stagger, B3000000);
per_baud!(c01_tto_stagger_b6000000, tto_stagger, B6000000);
per_baud!(c01_tto_stagger_b12000000, tto_stagger, B12000000);

/// Watchdog factors for every admissible timeout: both in 1..=255 and never shorter than asked
/// (in the watchdog's 10 ms time base).
#[kani::proof]
#[kani::unwind(258)]
fn c03_watchdog_factors() {
    let micros: u64 = kani::any();
    kani::assume(micros >= 10_000 && micros <= 650_000_000);
    let dur = crate::time::Duration::from_micros(micros);
    let p = ParametersBuilder::new(1, crate::Baudrate::B19200).watchdog_timeout(dur).build();
    match p.watchdog_factors {
        Some((f1, f2)) => {
            vassert!(f1 >= 1 && f2 >= 1, "C03/watchdog: both watchdog factors are in 1..=255");
            let want_10ms = micros / 10_000;
            vassert!(u64::from(f1) * u64::from(f2) >= want_10ms, "C03/watchdog: the configured watchdog time (f1*f2*10 ms) is not shorter than the requested one");
            vassert!(p.watchdog_timeout() == Some(crate::time::Duration::from_millis(u64::from(f1) * u64::from(f2) * 10)), "C03/watchdog: the reported watchdog time is f1*f2*10 ms");
            kani::cover!(f1 > 1, "cover: timeout needing two factors");
            kani::cover!(micros == 650_000_000, "cover: longest timeout");
        }
        None => vassert!(false, "C03/watchdog: a watchdog timeout between 10 ms and 650 s yields factors"),
    }
}
