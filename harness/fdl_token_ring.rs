// harness file fdl_token_ring (see /verif/DESIGN.md)
