// C02 harnesses (L1): src/fdl/token_ring.rs, as crate::fdl::token_ring::verif.
//
// `Model` is a reference model of the list of active stations on a u128 (bit a = station a),
// written from the FDL description of LAS maintenance, not from the bitvec code.

use super::*;

pub(crate) const ADDR_MASK: u128 = (1u128 << 126) - 1; // addresses 0..=125

#[derive(Clone, Copy, PartialEq, Eq)]
pub(crate) enum MLas {
    Uninitialized,
    Discovery,
    Verification,
    Valid,
}

#[derive(Clone, Copy, PartialEq, Eq)]
pub(crate) struct Model {
    pub las: u128,
    pub state: MLas,
    pub ts: u8,
    pub ns: u8,
    pub ps: u8,
}

/// bits strictly between `lo` and `hi` (exclusive both), lo < hi <= 128
fn bits_between(lo: u8, hi: u8) -> u128 {
    // bits lo+1 ..= hi-1
    if hi <= lo + 1 {
        return 0;
    }
    let upto_hi = if hi >= 128 { u128::MAX } else { (1u128 << hi) - 1 }; // bits 0..hi-1
    let upto_lo = (1u128 << (lo + 1)) - 1; // bits 0..lo
    upto_hi & !upto_lo
}

/// Cyclic open interval (sa, da) over 0..=127: the stations a token pass sa->da jumps over.
pub(crate) fn jumped_over(sa: u8, da: u8) -> u128 {
    if da > sa {
        bits_between(sa, da)
    } else {
        // sa+1 .. 127 and 0 .. da-1
        let high = bits_between(sa, 128);
        let low = if da == 0 { 0 } else { (1u128 << da) - 1 };
        high | low
    }
}

impl Model {
    pub(crate) fn neighbours(las: u128, ts: u8) -> (u8, u8) {
        // NS: lowest member above TS, else lowest member, else TS
        let above = las & !((1u128 << (ts + 1)) - 1);
        let ns = if above != 0 {
            above.trailing_zeros() as u8
        } else if las != 0 {
            las.trailing_zeros() as u8
        } else {
            ts
        };
        // PS: highest member below TS, else highest member, else TS
        let below = las & ((1u128 << ts) - 1);
        let ps = if below != 0 {
            (127 - below.leading_zeros()) as u8
        } else if las != 0 {
            (127 - las.leading_zeros()) as u8
        } else {
            ts
        };
        (ns, ps)
    }

    pub(crate) fn update_from_pass(&mut self, sa: u8, da: u8) {
        // everything from SA (inclusive) up to DA (exclusive) is cleared, then SA is entered
        self.las &= !(jumped_over(sa, da));
        self.las |= 1u128 << sa;
        let (ns, ps) = Self::neighbours(self.las, self.ts);
        self.ns = ns;
        self.ps = ps;
    }

    pub(crate) fn verify_pass(&self, sa: u8, da: u8) -> bool {
        self.las >> sa & 1 == 1 && self.las >> da & 1 == 1 && self.las & jumped_over(sa, da) == 0
    }

    pub(crate) fn witness(&mut self, sa: u8, da: u8) {
        if sa > 125 || da > 125 {
            return;
        }
        match self.state {
            MLas::Uninitialized => {
                if da <= sa {
                    self.state = MLas::Discovery;
                }
            }
            MLas::Discovery => {
                self.update_from_pass(sa, da);
                if da <= sa {
                    self.state = MLas::Verification;
                }
            }
            MLas::Verification => {
                if !self.verify_pass(sa, da) {
                    self.update_from_pass(sa, da);
                    self.state = MLas::Discovery;
                } else if da <= sa {
                    self.state = MLas::Valid;
                }
            }
            MLas::Valid => self.update_from_pass(sa, da),
        }
    }

    pub(crate) fn set_next(&mut self, a: u8) {
        self.las |= 1u128 << a;
        self.update_from_pass(self.ts, a);
    }

    pub(crate) fn remove(&mut self, a: u8) {
        self.las &= !(1u128 << a);
        let (ns, ps) = Self::neighbours(self.las, self.ts);
        self.ns = ns;
        self.ps = ps;
    }

    pub(crate) fn claim(&mut self) {
        self.state = MLas::Valid;
    }
}

// ---- bridging between the real struct and the model -----------------------------------------

pub(crate) fn words_of(las: u128) -> [usize; 2] {
    [las as u64 as usize, (las >> 64) as u64 as usize]
}

pub(crate) fn las_of(r: &TokenRing) -> u128 {
    (r.active_stations.data[0] as u128) | ((r.active_stations.data[1] as u128) << 64)
}

fn mstate(s: LasState) -> MLas {
    match s {
        LasState::Uninitialized => MLas::Uninitialized,
        LasState::Discovery => MLas::Discovery,
        LasState::Verification => MLas::Verification,
        LasState::Valid => MLas::Valid,
    }
}

fn rstate(s: MLas) -> LasState {
    match s {
        MLas::Uninitialized => LasState::Uninitialized,
        MLas::Discovery => LasState::Discovery,
        MLas::Verification => LasState::Verification,
        MLas::Valid => LasState::Valid,
    }
}

pub(crate) fn to_model(r: &TokenRing) -> Model {
    Model { las: las_of(r), state: mstate(r.las_state), ts: r.this_station, ns: r.next_station, ps: r.previous_station }
}

pub(crate) fn from_model(m: &Model) -> TokenRing {
    let mut active_stations: bitvec::BitArr!(for 128) = bitvec::array::BitArray::ZERO;
    active_stations.data = words_of(m.las);
    TokenRing {
        active_stations,
        las_state: rstate(m.state),
        this_station: m.ts,
        next_station: m.ns,
        previous_station: m.ps,
    }
}

pub(crate) fn any_las_state() -> MLas {
    match kani::any::<u8>() {
        0 => MLas::Uninitialized,
        1 => MLas::Discovery,
        2 => MLas::Verification,
        _ => MLas::Valid,
    }
}

/// Arbitrary ring view satisfying the representation invariant: only addresses 0..=125 in the
/// LAS, NS/PS are the cyclic neighbours of TS in it.
pub(crate) fn any_model(ts: u8) -> Model {
    let las: u128 = kani::any();
    kani::assume(las & !ADDR_MASK == 0);
    let (ns, ps) = Model::neighbours(las, ts);
    Model { las, state: any_las_state(), ts, ns, ps }
}

/// Like `any_model`, but NS/PS are free (for states where they need not be neighbours yet).
pub(crate) fn ring_inv(r: &TokenRing) -> bool {
    let m = to_model(r);
    let (ns, ps) = Model::neighbours(m.las, m.ts);
    m.las & !ADDR_MASK == 0 && m.ts <= 125 && m.ns == ns && m.ps == ps
}

// ---- model stubs operating on the real struct (used by the L2 harnesses via #[kani::stub]) ----

pub(crate) fn stub_witness_token_pass(r: &mut TokenRing, sa: crate::Address, da: crate::Address) {
    let mut m = to_model(r);
    m.witness(sa, da);
    *r = from_model(&m);
}

pub(crate) fn stub_set_next_station(r: &mut TokenRing, address: crate::Address) {
    let mut m = to_model(r);
    m.set_next(address);
    *r = from_model(&m);
}

pub(crate) fn stub_remove_station(r: &mut TokenRing, address: crate::Address) {
    let mut m = to_model(r);
    m.remove(address);
    *r = from_model(&m);
}
