// C02 harnesses (L1): src/fdl/token_ring.rs, as crate::fdl::token_ring::verif.
//
// `Model` is a reference model of the list of active stations on a u128 (bit a = station a),
// written from the FDL description of LAS maintenance, not from the bitvec code.

use super::*;
#[allow(unused_imports)]
use crate::verif_support::*;

pub(crate) const ADDR_MASK: u128 = (1u128 << 126) - 1; // addresses 0..=125

#[derive(Clone, Copy, PartialEq, Eq)]
pub(crate) enum MLas {
    Uninitialized,
    Discovery,
    Verification,
    Valid,
}

#[derive(Clone, Copy, PartialEq, Eq)]
pub(crate) struct Model {
    pub las: u128,
    pub state: MLas,
    pub ts: u8,
    pub ns: u8,
    pub ps: u8,
}

/// bits strictly between `lo` and `hi` (exclusive both), lo < hi <= 128
fn bits_between(lo: u8, hi: u8) -> u128 {
    // bits lo+1 ..= hi-1
    if hi <= lo + 1 {
        return 0;
    }
    let upto_hi = if hi >= 128 { u128::MAX } else { (1u128 << hi) - 1 }; // bits 0..hi-1
    let upto_lo = (1u128 << (lo + 1)) - 1; // bits 0..lo
    upto_hi & !upto_lo
}

/// Cyclic open interval (sa, da) over 0..=127: the stations a token pass sa->da jumps over.
pub(crate) fn jumped_over(sa: u8, da: u8) -> u128 {
    if da > sa {
        bits_between(sa, da)
    } else {
        // sa+1 .. 127 and 0 .. da-1
        let high = bits_between(sa, 128);
        let low = if da == 0 { 0 } else { (1u128 << da) - 1 };
        high | low
    }
}

impl Model {
    pub(crate) fn neighbours(las: u128, ts: u8) -> (u8, u8) {
        // NS: lowest member above TS, else lowest member, else TS
        let above = las & !((1u128 << (ts + 1)) - 1);
        let ns = if above != 0 {
            above.trailing_zeros() as u8
        } else if las != 0 {
            las.trailing_zeros() as u8
        } else {
            ts
        };
        // PS: highest member below TS, else highest member, else TS
        let below = las & ((1u128 << ts) - 1);
        let ps = if below != 0 {
            (127 - below.leading_zeros()) as u8
        } else if las != 0 {
            (127 - las.leading_zeros()) as u8
        } else {
            ts
        };
        (ns, ps)
    }

    pub(crate) fn update_from_pass(&mut self, sa: u8, da: u8) {
        // everything from SA (inclusive) up to DA (exclusive) is cleared, then SA is entered
        self.las &= !(jumped_over(sa, da));
        self.las |= 1u128 << sa;
        let (ns, ps) = Self::neighbours(self.las, self.ts);
        self.ns = ns;
        self.ps = ps;
    }

    pub(crate) fn verify_pass(&self, sa: u8, da: u8) -> bool {
        self.las >> sa & 1 == 1 && self.las >> da & 1 == 1 && self.las & jumped_over(sa, da) == 0
    }

    pub(crate) fn witness(&mut self, sa: u8, da: u8) {
        if sa > 125 || da > 125 {
            return;
        }
        match self.state {
            MLas::Uninitialized => {
                if da <= sa {
                    self.state = MLas::Discovery;
                }
            }
            MLas::Discovery => {
                self.update_from_pass(sa, da);
                if da <= sa {
                    self.state = MLas::Verification;
                }
            }
            MLas::Verification => {
                if !self.verify_pass(sa, da) {
                    self.update_from_pass(sa, da);
                    self.state = MLas::Discovery;
                } else if da <= sa {
                    self.state = MLas::Valid;
                }
            }
            MLas::Valid => self.update_from_pass(sa, da),
        }
    }

    pub(crate) fn set_next(&mut self, a: u8) {
        self.las |= 1u128 << a;
        self.update_from_pass(self.ts, a);
    }

    pub(crate) fn remove(&mut self, a: u8) {
        self.las &= !(1u128 << a);
        let (ns, ps) = Self::neighbours(self.las, self.ts);
        self.ns = ns;
        self.ps = ps;
    }

    pub(crate) fn claim(&mut self) {
        self.state = MLas::Valid;
    }
}

// ---- bridging between the real struct and the model -----------------------------------------

pub(crate) fn words_of(las: u128) -> [usize; 2] {
    [las as u64 as usize, (las >> 64) as u64 as usize]
}

pub(crate) fn las_of(r: &TokenRing) -> u128 {
    (r.active_stations.data[0] as u128) | ((r.active_stations.data[1] as u128) << 64)
}

fn mstate(s: LasState) -> MLas {
    match s {
        LasState::Uninitialized => MLas::Uninitialized,
        LasState::Discovery => MLas::Discovery,
        LasState::Verification => MLas::Verification,
        LasState::Valid => MLas::Valid,
    }
}

fn rstate(s: MLas) -> LasState {
    match s {
        MLas::Uninitialized => LasState::Uninitialized,
        MLas::Discovery => LasState::Discovery,
        MLas::Verification => LasState::Verification,
        MLas::Valid => LasState::Valid,
    }
}

pub(crate) fn to_model(r: &TokenRing) -> Model {
    Model { las: las_of(r), state: mstate(r.las_state), ts: r.this_station, ns: r.next_station, ps: r.previous_station }
}

pub(crate) fn from_model(m: &Model) -> TokenRing {
    let mut active_stations: bitvec::BitArr!(for 128) = bitvec::array::BitArray::ZERO;
    active_stations.data = words_of(m.las);
    TokenRing {
        active_stations,
        las_state: rstate(m.state),
        this_station: m.ts,
        next_station: m.ns,
        previous_station: m.ps,
    }
}

pub(crate) fn any_las_state() -> MLas {
    match kani::any::<u8>() {
        0 => MLas::Uninitialized,
        1 => MLas::Discovery,
        2 => MLas::Verification,
        _ => MLas::Valid,
    }
}

/// Arbitrary ring view satisfying the representation invariant: only addresses 0..=125 in the
/// LAS, NS/PS are the cyclic neighbours of TS in it.
pub(crate) fn any_model(ts: u8) -> Model {
    let las: u128 = kani::any();
    kani::assume(las & !ADDR_MASK == 0);
    let (ns, ps) = Model::neighbours(las, ts);
    Model { las, state: any_las_state(), ts, ns, ps }
}

/// Like `any_model`, but NS/PS are free (for states where they need not be neighbours yet).
pub(crate) fn ring_inv(r: &TokenRing) -> bool {
    let m = to_model(r);
    let (ns, ps) = Model::neighbours(m.las, m.ts);
    m.las & !ADDR_MASK == 0 && m.ts <= 125 && m.ns == ns && m.ps == ps
}

// ---- model stubs operating on the real struct (used by the L2 harnesses via #[kani::stub]) ----

pub(crate) fn stub_witness_token_pass(r: &mut TokenRing, sa: crate::Address, da: crate::Address) {
    let mut m = to_model(r);
    m.witness(sa, da);
    *r = from_model(&m);
}

pub(crate) fn stub_set_next_station(r: &mut TokenRing, address: crate::Address) {
    let mut m = to_model(r);
    m.set_next(address);
    *r = from_model(&m);
}

pub(crate) fn stub_remove_station(r: &mut TokenRing, address: crate::Address) {
    let mut m = to_model(r);
    m.remove(address);
    *r = from_model(&m);
}

// ==========================================================================================
// Model lemmas (pure reference model): what the station-level harnesses assume about a ring
// ==========================================================================================

/// set_next_station(a): a becomes the successor, the LAS state is untouched, the invariant holds.
#[kani::proof]
#[kani::unwind(4)]
fn c02_model_set_next() {
    let ts: u8 = kani::any();
    kani::assume(ts <= 125);
    let mut m = any_model(ts);
    let before = m;
    let a: u8 = kani::any();
    kani::assume(a <= 125 && a != ts);
    m.set_next(a);
    vassert!(m.ns == a, "C12/reply-evaluation: the station entered by set_next_station is the successor afterwards");
    vassert!(m.state == before.state, "C02/model: set_next_station does not touch the LAS state");
    vassert!((m.ns, m.ps) == Model::neighbours(m.las, ts) && m.las & !ADDR_MASK == 0, "C02/model: ring invariant preserved");
    vassert!(m.las == (before.las & !jumped_over(ts, a)) | (1 << a) | (1 << ts), "C02/pass-algebra: everything strictly between TS and the new successor leaves the LAS, both ends are in it");
    kani::cover!(a < ts, "cover: successor below TS");
}

/// remove_station(a): a is not the successor afterwards, only a leaves the LAS.
#[kani::proof]
#[kani::unwind(4)]
fn c02_model_remove() {
    let ts: u8 = kani::any();
    kani::assume(ts <= 125);
    let mut m = any_model(ts);
    let before = m;
    let a: u8 = kani::any();
    kani::assume(a <= 125 && a != ts);
    m.remove(a);
    vassert!(m.ns != a, "C11/remove-silent: a removed station is not the successor afterwards");
    vassert!(m.las == before.las & !(1 << a), "C11/remove-silent: exactly the removed station leaves the LAS");
    vassert!(m.state == before.state, "C02/model: remove_station does not touch the LAS state");
    vassert!((m.ns, m.ps) == Model::neighbours(m.las, ts), "C02/model: ring invariant preserved");
    kani::cover!(m.ns == ts, "cover: alone after removal");
}

/// Witnessing a pass: removes exactly the jumped-over addresses and enters the sender; invalid
/// addresses are ignored; the own pass to the current successor changes neither NS nor PS.
#[kani::proof]
#[kani::unwind(4)]
fn c02_model_witness() {
    let ts: u8 = kani::any();
    kani::assume(ts <= 125);
    let mut m = any_model(ts);
    let before = m;
    let sa: u8 = kani::any();
    let da: u8 = kani::any();
    m.witness(sa, da);
    if sa > 125 || da > 125 {
        vassert!(m == before, "C02/model: a pass with an invalid address is ignored");
        return;
    }
    vassert!((m.ns, m.ps) == Model::neighbours(m.las, ts) && m.las & !ADDR_MASK == 0, "C02/model: ring invariant preserved");
    if before.state == MLas::Valid {
        vassert!(m.las == (before.las & !jumped_over(sa, da)) | (1 << sa), "C02/pass-algebra: a witnessed pass a->b removes exactly the addresses strictly between a and b and adds a");
        vassert!(m.state == MLas::Valid, "C02/stability: a valid LAS stays valid");
        if sa == ts && da == before.ns {
            vassert!(m.ns == before.ns && m.ps == before.ps, "C02/stability: the own pass to the successor leaves successor and predecessor unchanged");
        }
        if before.las >> sa & 1 == 1 && before.las >> da & 1 == 1 && before.las & jumped_over(sa, da) == 0 {
            vassert!(m.las == before.las && m.ns == before.ns && m.ps == before.ps, "C02/stability: an in-order pass between neighbours of the LAS changes nothing");
            kani::cover!(true, "cover: in-order pass in a valid ring");
        }
    }
    kani::cover!(before.state == MLas::Verification && m.state == MLas::Valid, "cover: verification completes");
    kani::cover!(before.state == MLas::Verification && m.state == MLas::Discovery, "cover: verification fails, rediscovery");
}

/// Three rotations of a stable ring of 2..=5 stations, heard from any starting point and any
/// start state, give a valid LAS equal to the ring, with NS/PS the cyclic neighbours of TS.
fn three_rotations<const K: usize>() {
    // ring members, strictly ascending
    let mut s = [0u8; K];
    let n: usize = kani::any();
    kani::assume(n >= 2 && n <= K);
    let mut i = 0;
    let mut ring: u128 = 0;
    while i < K {
        s[i] = kani::any();
        kani::assume(s[i] <= 125);
        if i > 0 && i < n {
            kani::assume(s[i] > s[i - 1]);
        }
        if i < n {
            ring |= 1 << s[i];
        }
        i += 1;
    }
    let ts: u8 = kani::any();
    kani::assume(ts <= 125);
    let mut m = any_model(ts);
    // listening station: TS itself takes no part in the passes heard (it is either a member that
    // is being passed over because it only listens - excluded here - or a non-member)
    kani::assume(ring >> ts & 1 == 0);
    let start: usize = kani::any();
    kani::assume(start < n);
    let mut k = 0;
    while k < 3 * K {
        if k < 3 * n {
            let from = s[(start + k) % n];
            let to = s[(start + k + 1) % n];
            m.witness(from, to);
        }
        k += 1;
    }
    vassert!(m.state == MLas::Valid, "C02/convergence: after three rotations the ring view is valid");
    vassert!(m.las & !(1 << ts) == ring, "C02/convergence: the LAS equals the set of stations in the ring");
    let (ns, ps) = Model::neighbours(ring, ts);
    vassert!(m.ns == ns && m.ps == ps, "C02/convergence: successor and predecessor are the cyclic neighbours of TS in the ring");
    kani::cover!(n == K, "cover: largest ring");
    kani::cover!(ts > s[0] && ts < s[1], "cover: listener between two members");
}

#[kani::proof]
#[kani::unwind(11)]
fn c02_model_three_rotations_3() {
    three_rotations::<3>();
}

#[kani::proof]
#[kani::unwind(17)]
fn c02_model_three_rotations_5_t() {
    three_rotations::<5>();
}

// ==========================================================================================
// L1: real bitvec code == model
// ==========================================================================================

fn same(r: &TokenRing, m: &Model) -> bool {
    let x = to_model(r);
    x.las == m.las && x.state == m.state && x.ns == m.ns && x.ps == m.ps && x.ts == m.ts
}

fn model_update_las(r: &mut TokenRing, sa: crate::Address, da: crate::Address) {
    let mut m = to_model(r);
    m.update_from_pass(sa, da);
    *r = from_model(&m);
}

fn model_verify_las(r: &mut TokenRing, sa: crate::Address, da: crate::Address) -> bool {
    to_model(r).verify_pass(sa, da)
}

fn model_update_next_previous(r: &mut TokenRing) {
    let mut m = to_model(r);
    let (ns, ps) = Model::neighbours(m.las, m.ts);
    m.ns = ns;
    m.ps = ps;
    *r = from_model(&m);
}

/// Control flow of the four public mutators with the three bitvec leaves replaced by the model:
/// real == model for ALL ring views and ALL addresses.
#[kani::proof]
#[kani::stub(TokenRing::update_las_from_token_pass, model_update_las)]
#[kani::stub(TokenRing::verify_las_from_token_pass, model_verify_las)]
#[kani::stub(TokenRing::update_next_previous, model_update_next_previous)]
#[kani::unwind(4)]
fn c02_l1_control_flow() {
    let ts: u8 = kani::any();
    kani::assume(ts <= 125);
    let m0 = any_model(ts);
    let mut r = from_model(&m0);
    let mut m = m0;
    let a: u8 = kani::any();
    let b: u8 = kani::any();
    match kani::any::<u8>() {
        0 => {
            r.witness_token_pass(a, b);
            m.witness(a, b);
        }
        1 => {
            kani::assume(a <= 125);
            r.set_next_station(a);
            m.set_next(a);
        }
        2 => {
            kani::assume(a <= 125);
            r.remove_station(a);
            m.remove(a);
        }
        _ => {
            r.claim_token();
            m.claim();
        }
    }
    vassert!(same(&r, &m), "C02/l1: witness_token_pass / set_next_station / remove_station / claim_token agree with the reference model (leaves by model)");
    vassert!(r.ready_for_ring() == (m.state == MLas::Valid) && r.next_station() == m.ns && r.previous_station() == m.ps && r.this_station() == ts, "C02/l1: the observers report the model's values");
    kani::cover!(m.state != m0.state, "cover: LAS state changes");
}

/// Leaf: verify_las_from_token_pass (bitvec range `any`) == model, LAS population bounded.
fn any_sparse_las<const K: usize>() -> u128 {
    let mut las: u128 = 0;
    let mut i = 0;
    while i < K {
        let a: u8 = kani::any();
        kani::assume(a <= 125);
        if kani::any() {
            las |= 1 << a;
        }
        i += 1;
    }
    las
}

#[kani::proof]
#[kani::unwind(130)]
fn c02_l1_update_las() {
    let ts: u8 = kani::any();
    kani::assume(ts <= 125);
    let las: u128 = kani::any();
    kani::assume(las & !ADDR_MASK == 0);
    let m0 = Model { las, state: any_las_state(), ts, ns: ts, ps: ts };
    let mut r = from_model(&m0);
    let sa: u8 = kani::any();
    let da: u8 = kani::any();
    kani::assume(sa <= 125 && da <= 125);
    // the bitvec part only: range fill + set (update_next_previous is the separate leaf)
    if da > sa {
        r.active_stations[usize::from(sa)..usize::from(da)].fill(false);
    } else {
        r.active_stations[usize::from(sa)..].fill(false);
        r.active_stations[..usize::from(da)].fill(false);
    }
    r.active_stations.set(usize::from(sa), true);
    let want = (las & !jumped_over(sa, da)) | (1 << sa);
    vassert!(las_of(&r) == want, "C02/l1: the bitvec range fill of update_las_from_token_pass equals the model's mask arithmetic");
    kani::cover!(da <= sa, "cover: wrap-around pass");
}

/// Leaf: the REAL `update_las_from_token_pass` (range fill, set, and its own control flow up to
/// the neighbour search) == model, for ALL ring views that satisfy TokenRing's invariant and
/// ALL passes; only the neighbour search `update_next_previous` is replaced by the model (it is
/// the one leaf without a verdict, DESIGN section 0).  `c02_l1_update_las` above exercises the
/// same bitvec operations on a copy of the code; this one runs the function itself, so that a
/// change inside it (e.g. skipping the neighbour search when the LAS "did not change") is seen.
#[kani::proof]
#[kani::stub(TokenRing::update_next_previous, model_update_next_previous)]
#[kani::unwind(130)]
fn c02_l1_update_las_real() {
    let ts: u8 = kani::any();
    kani::assume(ts <= 125);
    let m0 = any_model(ts);
    let mut r = from_model(&m0);
    let mut m = m0;
    let sa: u8 = kani::any();
    let da: u8 = kani::any();
    kani::assume(sa <= 125 && da <= 125);
    r.update_las_from_token_pass(sa, da);
    m.update_from_pass(sa, da);
    vassert!(same(&r, &m), "C02/l1: update_las_from_token_pass leaves the LAS the model computes (stations jumped over removed, sender entered) and NS/PS are the neighbours in the NEW list");
    kani::cover!(da <= sa && m.las != m0.las && m.ps != m0.ps, "cover: wrap-around pass that changes the predecessor");
}
