// Shared harness support (compiled only under cfg(kani) as crate::verif_support).
//
// Everything in here is *specification side*: symbolic constructors for the crate's public enums,
// an independent reference encoder for PROFIBUS frames written from the frame format description
// (EN 50170-2 / IEC 61158-2 FDL frame formats), and the harness PHY.  Nothing in this file is
// derived from the implementation under test.

// ---- focus-aware assertions ------------------------------------------------------------------
//
// Kani's assert! is check-then-assume: of several oracle assertions on one path only the first
// can fail, so a failure under one property's label hides the assertions of other properties
// behind it.  Every oracle assertion therefore goes through `vassert!`.  Normally it is a plain
// assert!.  When the runner finds a harness failing ONLY under labels of other properties, it
// re-runs that harness compiled with VERIF_FOCUS=<property>: assertions labelled with other
// properties are then skipped (neither checked nor assumed), unlabelled ones (harness sanity)
// stay, and the property's own assertions are decided on all paths.  The decision is made at
// compile time (const evaluation), so nothing of it reaches the solver.

pub(crate) const FOCUS: Option<&'static str> = option_env!("VERIF_FOCUS");

pub(crate) const fn label_in_focus(msg: &str) -> bool {
    let p = match FOCUS {
        Some(p) => p.as_bytes(),
        None => return true,
    };
    if p.len() != 3 {
        return true;
    }
    let m = msg.as_bytes();
    // labelled message: "Cxx(+Cyy)*/label: text"; anything else is always in focus
    if m.len() < 4 || m[0] != b'C' {
        return true;
    }
    let mut end = 0;
    while end < m.len() && m[end] != b'/' && m[end] != b' ' {
        end += 1;
    }
    if end >= m.len() || m[end] != b'/' {
        return true;
    }
    let mut j = 0;
    while j + 3 <= end {
        if m[j] == p[0] && m[j + 1] == p[1] && m[j + 2] == p[2] {
            return true;
        }
        j += 1;
    }
    false
}

macro_rules! vassert {
    ($cond:expr, $msg:literal $(,)?) => {{
        const IN_FOCUS: bool = $crate::verif_support::label_in_focus($msg);
        if IN_FOCUS {
            assert!($cond, $msg);
        }
    }};
    ($($t:tt)+) => { assert!($($t)+) };
}
pub(crate) use vassert;

use crate::fdl::{
    DataTelegramHeader, FrameCountBit, FunctionCode, RequestType, ResponseState, ResponseStatus,
};

pub const SD1: u8 = 0x10;
pub const SD2: u8 = 0x68;
pub const SD3: u8 = 0xA2;
pub const SD4: u8 = 0xDC;
pub const ED: u8 = 0x16;
pub const SC: u8 = 0xE5;

// ------------------------------------------------------------------------------------------
// symbolic constructors
// ------------------------------------------------------------------------------------------

pub fn any_request_type() -> RequestType {
    match kani::any::<u8>() {
        0 => RequestType::ClockValue,
        1 => RequestType::TimeEvent,
        2 => RequestType::SdaLow,
        3 => RequestType::SdnLow,
        4 => RequestType::SdaHigh,
        5 => RequestType::SdnHigh,
        6 => RequestType::MulticastSrd,
        7 => RequestType::FdlStatus,
        8 => RequestType::SrdLow,
        9 => RequestType::SrdHigh,
        10 => RequestType::Ident,
        _ => RequestType::LsapStatus,
    }
}

pub fn any_fcb() -> FrameCountBit {
    match kani::any::<u8>() {
        0 => FrameCountBit::First,
        1 => FrameCountBit::High,
        2 => FrameCountBit::Low,
        _ => FrameCountBit::Inactive,
    }
}

pub fn any_response_state() -> ResponseState {
    match kani::any::<u8>() {
        0 => ResponseState::Slave,
        1 => ResponseState::MasterNotReady,
        2 => ResponseState::MasterWithoutToken,
        _ => ResponseState::MasterInRing,
    }
}

pub fn any_response_status() -> ResponseStatus {
    match kani::any::<u8>() {
        0 => ResponseStatus::Ok,
        1 => ResponseStatus::UserError,
        2 => ResponseStatus::NoResources,
        3 => ResponseStatus::SapNotEnabled,
        4 => ResponseStatus::DataLow,
        5 => ResponseStatus::NoDataReady,
        6 => ResponseStatus::DataHigh,
        7 => ResponseStatus::NotReceivedDataLow,
        _ => ResponseStatus::NotReceivedDataHigh,
    }
}

pub fn any_function_code() -> FunctionCode {
    if kani::any() {
        FunctionCode::Request {
            fcb: any_fcb(),
            req: any_request_type(),
        }
    } else {
        FunctionCode::Response {
            state: any_response_state(),
            status: any_response_status(),
        }
    }
}

pub fn any_response_fc() -> FunctionCode {
    FunctionCode::Response {
        state: any_response_state(),
        status: any_response_status(),
    }
}

pub fn any_sap() -> Option<u8> {
    if kani::any() {
        Some(kani::any())
    } else {
        None
    }
}

/// Arbitrary data telegram header with 7-bit addresses (the property's address space 0..=127).
pub fn any_header() -> DataTelegramHeader {
    let da: u8 = kani::any();
    let sa: u8 = kani::any();
    kani::assume(da <= 127 && sa <= 127);
    DataTelegramHeader {
        da,
        sa,
        dsap: any_sap(),
        ssap: any_sap(),
        fc: any_function_code(),
    }
}

// ------------------------------------------------------------------------------------------
// Reference model of the function code byte (frame control octet)
//   b8 reserved(0) | b7 frame type 1=request | request: b6 FCB, b5 FCV | response: b6 b5 station
//   type | b4..b1 function
// ------------------------------------------------------------------------------------------

pub fn ref_request_code(req: RequestType) -> u8 {
    match req {
        RequestType::TimeEvent => 0,
        RequestType::SdaLow => 3,
        RequestType::SdnLow => 4,
        RequestType::SdaHigh => 5,
        RequestType::SdnHigh => 6,
        RequestType::MulticastSrd => 7,
        RequestType::FdlStatus => 9,
        RequestType::SrdLow => 12,
        RequestType::SrdHigh => 13,
        RequestType::Ident => 14,
        RequestType::LsapStatus => 15,
        // Clock value: function 0 with the reserved bit b8 set.
        RequestType::ClockValue => 0x80,
    }
}

/// (FCV, FCB) of a frame count bit state.
pub fn ref_fcv_fcb(fcb: FrameCountBit) -> (bool, bool) {
    match fcb {
        FrameCountBit::First => (false, true),
        FrameCountBit::High => (true, true),
        FrameCountBit::Low => (true, false),
        FrameCountBit::Inactive => (false, false),
    }
}

pub fn ref_fc_byte(fc: FunctionCode) -> u8 {
    match fc {
        FunctionCode::Request { fcb, req } => {
            let (fcv, fcb) = ref_fcv_fcb(fcb);
            0x40 | ref_request_code(req) | if fcb { 0x20 } else { 0 } | if fcv { 0x10 } else { 0 }
        }
        FunctionCode::Response { state, status } => {
            let st = match state {
                ResponseState::Slave => 0u8,
                ResponseState::MasterNotReady => 1,
                ResponseState::MasterWithoutToken => 2,
                ResponseState::MasterInRing => 3,
            };
            let code = match status {
                ResponseStatus::Ok => 0u8,
                ResponseStatus::UserError => 1,
                ResponseStatus::NoResources => 2,
                ResponseStatus::SapNotEnabled => 3,
                ResponseStatus::DataLow => 8,
                ResponseStatus::NoDataReady => 9,
                ResponseStatus::DataHigh => 10,
                ResponseStatus::NotReceivedDataLow => 12,
                ResponseStatus::NotReceivedDataHigh => 13,
            };
            (st << 4) | code
        }
    }
}

pub fn ref_request_expects_reply(req: RequestType) -> bool {
    // SDA, SRD, FDL status, ident and LSAP status are acknowledged/answered services; SDN and the
    // clock services are not.
    matches!(
        req,
        RequestType::SdaLow
            | RequestType::SdaHigh
            | RequestType::MulticastSrd
            | RequestType::FdlStatus
            | RequestType::SrdLow
            | RequestType::SrdHigh
            | RequestType::Ident
            | RequestType::LsapStatus
    )
}

// ------------------------------------------------------------------------------------------
// Reference frame encoder
// ------------------------------------------------------------------------------------------

/// Number of bytes a data telegram occupies on the wire.
pub fn ref_frame_len(h: &DataTelegramHeader, pdu_len: usize) -> usize {
    let le = 3 + pdu_len + h.dsap.is_some() as usize + h.ssap.is_some() as usize;
    if le == 3 {
        6 // SD1 DA SA FC FCS ED
    } else if le == 11 {
        14 // SD3 DA SA FC 8*DU FCS ED
    } else {
        le + 6 // SD2 LE LEr SD2 ... FCS ED
    }
}

/// Write the reference encoding of a data telegram into `out`; returns the length.
///
/// `pdu(i)` yields payload byte `i`.
pub fn ref_encode<const N: usize>(
    h: &DataTelegramHeader,
    pdu_len: usize,
    pdu: impl Fn(usize) -> u8,
    out: &mut [u8; N],
) -> usize {
    let le = 3 + pdu_len + h.dsap.is_some() as usize + h.ssap.is_some() as usize;
    let mut c;
    if le == 3 {
        out[0] = SD1;
        c = 1;
    } else if le == 11 {
        out[0] = SD3;
        c = 1;
    } else {
        out[0] = SD2;
        out[1] = le as u8;
        out[2] = le as u8;
        out[3] = SD2;
        c = 4;
    }
    let start = c;
    out[c] = h.da | if h.dsap.is_some() { 0x80 } else { 0 };
    out[c + 1] = h.sa | if h.ssap.is_some() { 0x80 } else { 0 };
    out[c + 2] = ref_fc_byte(h.fc);
    c += 3;
    if let Some(d) = h.dsap {
        out[c] = d;
        c += 1;
    }
    if let Some(s) = h.ssap {
        out[c] = s;
        c += 1;
    }
    let mut i = 0;
    while i < pdu_len {
        out[c] = pdu(i);
        c += 1;
        i += 1;
    }
    let mut fcs = 0u8;
    let mut k = start;
    while k < c {
        fcs = fcs.wrapping_add(out[k]);
        k += 1;
    }
    out[c] = fcs;
    out[c + 1] = ED;
    c + 2
}

/// `core::fmt::Write` sink that discards everything (for driving Debug impls).
pub struct NullWriter;
impl core::fmt::Write for NullWriter {
    fn write_str(&mut self, _s: &str) -> core::fmt::Result {
        Ok(())
    }
}

/// Stub for `log::__private_api::loc` (it calls `Location::caller()`, which Kani does not support).
/// The no-op logger never reads the location, so any well-aligned static of sufficient size does.
pub fn log_loc_stub() -> &'static core::panic::Location<'static> {
    static FAKE: [u64; 4] = [0; 4];
    unsafe { &*(FAKE.as_ptr() as *const core::panic::Location<'static>) }
}

/// FDL station whose parameters (the only thing the DP layer reads) are symbolic.
pub fn any_fdl() -> crate::fdl::FdlActiveStation {
    let address: u8 = kani::any();
    kani::assume(address <= 125);
    let max_retry_limit: u8 = kani::any();
    kani::assume(max_retry_limit >= 1 && max_retry_limit <= 15);
    let min_tsdr_bits: u8 = kani::any();
    kani::assume(min_tsdr_bits >= 11);
    let watchdog_factors = if kani::any() {
        let f1: u8 = kani::any();
        let f2: u8 = kani::any();
        kani::assume(f1 >= 1 && f2 >= 1);
        Some((f1, f2))
    } else {
        None
    };
    crate::fdl::FdlActiveStation::new(crate::fdl::Parameters {
        address,
        max_retry_limit,
        min_tsdr_bits,
        watchdog_factors,
        ..Default::default()
    })
}


// ------------------------------------------------------------------------------------------
// KPhy: byte-level harness PHY (implements the real ProfibusPhy trait; helpers are the real
// default methods).  Asserts the trait's documented caller-side contract.
// ------------------------------------------------------------------------------------------

pub struct KPhy<const RXN: usize, const TXN: usize> {
    pub rx: [u8; RXN],
    pub rx_len: usize,
    pub rx_off: usize,
    /// what poll_transmission() reports; set once this poll has started a transmission
    pub transmitting: bool,
    pub tx: [u8; TXN],
    pub tx_len: usize,
    pub tx_calls: usize,
    pub rx_calls: usize,
}

impl<const RXN: usize, const TXN: usize> KPhy<RXN, TXN> {
    /// PHY with fully symbolic receive buffer content and length.
    pub fn any() -> Self {
        let rx_len: usize = kani::any();
        kani::assume(rx_len <= RXN);
        KPhy {
            rx: kani::any(),
            rx_len,
            rx_off: 0,
            transmitting: kani::any(),
            tx: [0; TXN],
            tx_len: 0,
            tx_calls: 0,
            rx_calls: 0,
        }
    }

    pub fn idle_with(rx: [u8; RXN], rx_len: usize) -> Self {
        KPhy { rx, rx_len, rx_off: 0, transmitting: false, tx: [0; TXN], tx_len: 0, tx_calls: 0, rx_calls: 0 }
    }

    pub fn pending(&self) -> usize {
        self.rx_len - self.rx_off
    }
}

impl<const RXN: usize, const TXN: usize> crate::phy::ProfibusPhy for KPhy<RXN, TXN> {
    fn poll_transmission(&mut self, _now: crate::time::Instant) -> bool {
        self.transmitting
    }

    fn transmit_data<F, R>(&mut self, _now: crate::time::Instant, f: F) -> R
    where
        F: FnOnce(&mut [u8]) -> (usize, R),
    {
        vassert!(!self.transmitting, "C01/phy-contract: no transmission is started while another one is in progress");
        let (n, r) = f(&mut self.tx[..]);
        if n > 0 {
            vassert!(n <= TXN, "C01/phy-contract: transmitted length lies inside the buffer");
            self.tx_len = n;
            self.tx_calls += 1;
            self.transmitting = true;
        }
        r
    }

    fn receive_data<F, R>(&mut self, _now: crate::time::Instant, f: F) -> R
    where
        F: FnOnce(&[u8]) -> (usize, R),
    {
        vassert!(!self.transmitting, "C01/phy-contract: nothing is received while a transmission is in progress");
        self.rx_calls += 1;
        let (drop, r) = f(&self.rx[self.rx_off..self.rx_len]);
        vassert!(drop <= self.rx_len - self.rx_off, "C16/phy-contract: never more bytes are dropped than were offered");
        self.rx_off += drop;
        r
    }
}

// ------------------------------------------------------------------------------------------
// TPhy: telegram-level harness PHY.  The receive helpers are overridden by a model of their
// contract (proved against the real helpers over KPhy by the C16 harnesses): the buffer holds
// `n` complete telegrams followed by a tail that is empty, an incomplete telegram (kept), or
// undecodable bytes (discarded when reached).
// ------------------------------------------------------------------------------------------

#[derive(Clone, Copy, PartialEq, Eq)]
pub enum Tail {
    Empty,
    Incomplete,
    Garbage,
}

#[derive(Clone, Copy)]
pub struct STel<const P: usize> {
    /// 0 token, 1 short confirmation, 2 data
    pub kind: u8,
    pub da: u8,
    pub sa: u8,
    pub dsap: Option<u8>,
    pub ssap: Option<u8>,
    pub fc: FunctionCode,
    pub pdu: [u8; P],
    pub plen: usize,
}

impl<const P: usize> STel<P> {
    pub fn any() -> Self {
        let kind: u8 = kani::any();
        kani::assume(kind <= 2);
        let plen: usize = kani::any();
        kani::assume(plen <= P);
        let da: u8 = kani::any();
        let sa: u8 = kani::any();
        if kind == 2 {
            // the decoder strips the extension bit from data telegram addresses
            kani::assume(da <= 127 && sa <= 127);
        }
        STel { kind, da, sa, dsap: any_sap(), ssap: any_sap(), fc: any_function_code(), pdu: kani::any(), plen }
    }

    pub fn wire_len(&self) -> usize {
        match self.kind {
            0 => 3,
            1 => 1,
            _ => {
                let h = DataTelegramHeader { da: self.da, sa: self.sa, dsap: self.dsap, ssap: self.ssap, fc: self.fc };
                ref_frame_len(&h, self.plen)
            }
        }
    }

    pub fn source(&self) -> Option<u8> {
        if self.kind == 1 {
            None
        } else {
            Some(self.sa)
        }
    }

    pub fn is_token(&self) -> bool {
        self.kind == 0
    }

    pub fn is_status_request_for(&self, ts: u8) -> bool {
        self.kind == 2 && self.da == ts && matches!(self.fc, FunctionCode::Request { req: RequestType::FdlStatus, .. })
    }

    pub fn with<R>(&self, f: impl FnOnce(crate::fdl::Telegram) -> R) -> R {
        match self.kind {
            0 => f(crate::fdl::Telegram::Token(crate::fdl::TokenTelegram { da: self.da, sa: self.sa })),
            1 => f(crate::fdl::Telegram::ShortConfirmation(crate::fdl::ShortConfirmation)),
            _ => f(crate::fdl::Telegram::Data(crate::fdl::DataTelegram {
                h: DataTelegramHeader { da: self.da, sa: self.sa, dsap: self.dsap, ssap: self.ssap, fc: self.fc },
                pdu: &self.pdu[..self.plen],
            })),
        }
    }
}

pub struct TPhy<const N: usize, const P: usize, const TXN: usize> {
    pub tel: [STel<P>; N],
    pub n: usize,
    pub next: usize,
    pub tail: Tail,
    pub tail_len: usize,
    pub transmitting: bool,
    pub tx: [u8; TXN],
    pub tx_len: usize,
    pub tx_calls: usize,
    pub rx_calls: usize,
}

impl<const N: usize, const P: usize, const TXN: usize> TPhy<N, P, TXN> {
    pub fn any() -> Self {
        let n: usize = kani::any();
        kani::assume(n <= N);
        let tail = match kani::any::<u8>() {
            0 => Tail::Empty,
            1 => Tail::Incomplete,
            _ => Tail::Garbage,
        };
        let tail_len: usize = kani::any();
        kani::assume(tail_len <= 8);
        kani::assume((tail == Tail::Empty) == (tail_len == 0));
        let mut tel = [STel::<P>::any(); N];
        let mut i = 0;
        while i < N {
            tel[i] = STel::<P>::any();
            i += 1;
        }
        TPhy { tel, n, next: 0, tail, tail_len, transmitting: kani::any(), tx: [0; TXN], tx_len: 0, tx_calls: 0, rx_calls: 0 }
    }

    /// bytes currently in the receive buffer
    pub fn pending(&self) -> usize {
        let mut s = self.tail_len;
        let mut i = self.next;
        while i < self.n {
            s += self.tel[i].wire_len();
            i += 1;
        }
        s
    }

    pub fn has_complete(&self) -> bool {
        self.next < self.n
    }
}

impl<const N: usize, const P: usize, const TXN: usize> crate::phy::ProfibusPhy for TPhy<N, P, TXN> {
    fn poll_transmission(&mut self, _now: crate::time::Instant) -> bool {
        self.transmitting
    }

    fn transmit_data<F, R>(&mut self, _now: crate::time::Instant, f: F) -> R
    where
        F: FnOnce(&mut [u8]) -> (usize, R),
    {
        vassert!(!self.transmitting, "C01/phy-contract: no transmission is started while another one is in progress");
        let (n, r) = f(&mut self.tx[..]);
        if n > 0 {
            vassert!(n <= TXN, "C01/phy-contract: transmitted length lies inside the buffer");
            self.tx_len = n;
            self.tx_calls += 1;
            self.transmitting = true;
        }
        r
    }

    fn receive_data<F, R>(&mut self, _now: crate::time::Instant, f: F) -> R
    where
        F: FnOnce(&[u8]) -> (usize, R),
    {
        // The FDL layer uses the telegram-level helpers (all overridden here).  Raw access is
        // modelled only as far as a telegram-level buffer can express it: the caller sees
        // arbitrary bytes of the buffered length and may drop nothing or everything.
        vassert!(!self.transmitting, "C01/phy-contract: nothing is received while a transmission is in progress");
        self.rx_calls += 1;
        let bytes: [u8; 64] = kani::any();
        let len = self.pending();
        kani::assume(len <= 64);
        let (d, r) = f(&bytes[..len]);
        vassert!(d <= len, "C01/phy-contract: never more bytes dropped than offered");
        if d == len {
            self.next = self.n;
            self.tail = Tail::Empty;
            self.tail_len = 0;
        } else {
            assert!(d == 0, "TPhy: a partial raw drop cannot be expressed by the telegram-level PHY model (harness limitation)");
        }
        r
    }

    fn receive_telegram<F, R>(&mut self, _now: crate::time::Instant, f: F) -> Option<R>
    where
        F: FnOnce(crate::fdl::Telegram) -> R,
    {
        vassert!(!self.transmitting, "C01/phy-contract: nothing is received while a transmission is in progress");
        self.rx_calls += 1;
        if self.next < self.n {
            let t = self.tel[self.next];
            self.next += 1;
            Some(t.with(f))
        } else {
            if self.tail == Tail::Garbage {
                self.tail = Tail::Empty;
                self.tail_len = 0;
            }
            None
        }
    }

    fn receive_all_telegrams<F, R>(&mut self, _now: crate::time::Instant, mut f: F) -> Option<R>
    where
        F: FnMut(crate::fdl::Telegram, bool) -> R,
    {
        vassert!(!self.transmitting, "C01/phy-contract: nothing is received while a transmission is in progress");
        self.rx_calls += 1;
        let mut res = None;
        while self.next < self.n {
            let t = self.tel[self.next];
            self.next += 1;
            let is_last = self.next == self.n && self.tail == Tail::Empty;
            let r = t.with(|tg| f(tg, is_last));
            res = if is_last { Some(r) } else { None };
        }
        if self.tail == Tail::Garbage {
            self.tail = Tail::Empty;
            self.tail_len = 0;
        }
        res
    }

    fn poll_pending_received_bytes(&mut self, _now: crate::time::Instant) -> usize {
        vassert!(!self.transmitting, "C01/phy-contract: nothing is received while a transmission is in progress");
        self.pending()
    }
}

// ------------------------------------------------------------------------------------------
// NdApp: nondeterministic FDL application that records every callback
// ------------------------------------------------------------------------------------------

pub static mut CB_SEQ: u8 = 0;

fn next_seq() -> u8 {
    unsafe {
        CB_SEQ += 1;
        CB_SEQ
    }
}

#[derive(Clone, Copy)]
pub struct NdApp {
    /// 0 decline, 1 FDL status request (expects a reply), 2 SDN broadcast (no reply)
    pub behaviour: u8,
    pub target: u8,
    pub tx_calls: u8,
    pub tx_seq: u8,
    pub tx_high_prio_only: bool,
    pub rx_calls: u8,
    pub rx_seq: u8,
    pub rx_addr: u8,
    pub rx_kind: u8,
    pub rx_sa: u8,
    pub rx_da: u8,
    pub rx_is_response: bool,
    pub to_calls: u8,
    pub to_seq: u8,
    pub to_addr: u8,
}

impl NdApp {
    pub fn any() -> Self {
        let behaviour: u8 = kani::any();
        kani::assume(behaviour <= 2);
        let target: u8 = kani::any();
        kani::assume(target <= 126);
        NdApp {
            behaviour, target,
            tx_calls: 0, tx_seq: 0, tx_high_prio_only: false,
            rx_calls: 0, rx_seq: 0, rx_addr: 0, rx_kind: 0, rx_sa: 0, rx_da: 0, rx_is_response: false,
            to_calls: 0, to_seq: 0, to_addr: 0,
        }
    }

    pub fn callbacks(&self) -> u8 {
        self.tx_calls + self.rx_calls + self.to_calls
    }
}

impl crate::fdl::FdlApplication for NdApp {
    fn transmit_telegram(
        &mut self,
        _now: crate::time::Instant,
        fdl: &crate::fdl::FdlActiveStation,
        tx: crate::fdl::TelegramTx,
        high_prio_only: crate::fdl::HighPrioOnly,
    ) -> Option<crate::fdl::TelegramTxResponse> {
        self.tx_calls += 1;
        self.tx_seq = next_seq();
        self.tx_high_prio_only = high_prio_only == crate::fdl::HighPrioOnly::Yes;
        match self.behaviour {
            0 => None,
            1 => Some(tx.send_fdl_status_request(self.target, fdl.parameters().address)),
            _ => Some(tx.send_data_telegram(
                DataTelegramHeader {
                    da: 127,
                    sa: fdl.parameters().address,
                    dsap: Some(58),
                    ssap: Some(62),
                    fc: FunctionCode::Request { fcb: FrameCountBit::Inactive, req: RequestType::SdnLow },
                },
                2,
                |b| b.fill(0),
            )),
        }
    }

    fn receive_reply(&mut self, _now: crate::time::Instant, _fdl: &crate::fdl::FdlActiveStation, addr: u8, telegram: crate::fdl::Telegram) {
        self.rx_calls += 1;
        self.rx_seq = next_seq();
        self.rx_addr = addr;
        match &telegram {
            crate::fdl::Telegram::Token(t) => {
                self.rx_kind = 0;
                self.rx_sa = t.sa;
                self.rx_da = t.da;
            }
            crate::fdl::Telegram::ShortConfirmation(_) => self.rx_kind = 1,
            crate::fdl::Telegram::Data(d) => {
                self.rx_kind = 2;
                self.rx_sa = d.h.sa;
                self.rx_da = d.h.da;
                self.rx_is_response = matches!(d.h.fc, FunctionCode::Response { .. });
            }
        }
    }

    fn handle_timeout(&mut self, _now: crate::time::Instant, _fdl: &crate::fdl::FdlActiveStation, addr: u8) {
        self.to_calls += 1;
        self.to_seq = next_seq();
        self.to_addr = addr;
    }
}
