// Shared harness support (compiled only under cfg(kani) as crate::verif_support).
//
// Everything in here is *specification side*: symbolic constructors for the crate's public enums,
// an independent reference encoder for PROFIBUS frames written from the frame format description
// (EN 50170-2 / IEC 61158-2 FDL frame formats), and the harness PHY.  Nothing in this file is
// derived from the implementation under test.

use crate::fdl::{
    DataTelegramHeader, FrameCountBit, FunctionCode, RequestType, ResponseState, ResponseStatus,
};

pub const SD1: u8 = 0x10;
pub const SD2: u8 = 0x68;
pub const SD3: u8 = 0xA2;
pub const SD4: u8 = 0xDC;
pub const ED: u8 = 0x16;
pub const SC: u8 = 0xE5;

// ------------------------------------------------------------------------------------------
// symbolic constructors
// ------------------------------------------------------------------------------------------

pub fn any_request_type() -> RequestType {
    match kani::any::<u8>() {
        0 => RequestType::ClockValue,
        1 => RequestType::TimeEvent,
        2 => RequestType::SdaLow,
        3 => RequestType::SdnLow,
        4 => RequestType::SdaHigh,
        5 => RequestType::SdnHigh,
        6 => RequestType::MulticastSrd,
        7 => RequestType::FdlStatus,
        8 => RequestType::SrdLow,
        9 => RequestType::SrdHigh,
        10 => RequestType::Ident,
        _ => RequestType::LsapStatus,
    }
}

pub fn any_fcb() -> FrameCountBit {
    match kani::any::<u8>() {
        0 => FrameCountBit::First,
        1 => FrameCountBit::High,
        2 => FrameCountBit::Low,
        _ => FrameCountBit::Inactive,
    }
}

pub fn any_response_state() -> ResponseState {
    match kani::any::<u8>() {
        0 => ResponseState::Slave,
        1 => ResponseState::MasterNotReady,
        2 => ResponseState::MasterWithoutToken,
        _ => ResponseState::MasterInRing,
    }
}

pub fn any_response_status() -> ResponseStatus {
    match kani::any::<u8>() {
        0 => ResponseStatus::Ok,
        1 => ResponseStatus::UserError,
        2 => ResponseStatus::NoResources,
        3 => ResponseStatus::SapNotEnabled,
        4 => ResponseStatus::DataLow,
        5 => ResponseStatus::NoDataReady,
        6 => ResponseStatus::DataHigh,
        7 => ResponseStatus::NotReceivedDataLow,
        _ => ResponseStatus::NotReceivedDataHigh,
    }
}

pub fn any_function_code() -> FunctionCode {
    if kani::any() {
        FunctionCode::Request {
            fcb: any_fcb(),
            req: any_request_type(),
        }
    } else {
        FunctionCode::Response {
            state: any_response_state(),
            status: any_response_status(),
        }
    }
}

pub fn any_response_fc() -> FunctionCode {
    FunctionCode::Response {
        state: any_response_state(),
        status: any_response_status(),
    }
}

pub fn any_sap() -> Option<u8> {
    if kani::any() {
        Some(kani::any())
    } else {
        None
    }
}

/// Arbitrary data telegram header with 7-bit addresses (the property's address space 0..=127).
pub fn any_header() -> DataTelegramHeader {
    let da: u8 = kani::any();
    let sa: u8 = kani::any();
    kani::assume(da <= 127 && sa <= 127);
    DataTelegramHeader {
        da,
        sa,
        dsap: any_sap(),
        ssap: any_sap(),
        fc: any_function_code(),
    }
}

// ------------------------------------------------------------------------------------------
// Reference model of the function code byte (frame control octet)
//   b8 reserved(0) | b7 frame type 1=request | request: b6 FCB, b5 FCV | response: b6 b5 station
//   type | b4..b1 function
// ------------------------------------------------------------------------------------------

pub fn ref_request_code(req: RequestType) -> u8 {
    match req {
        RequestType::TimeEvent => 0,
        RequestType::SdaLow => 3,
        RequestType::SdnLow => 4,
        RequestType::SdaHigh => 5,
        RequestType::SdnHigh => 6,
        RequestType::MulticastSrd => 7,
        RequestType::FdlStatus => 9,
        RequestType::SrdLow => 12,
        RequestType::SrdHigh => 13,
        RequestType::Ident => 14,
        RequestType::LsapStatus => 15,
        // Clock value: function 0 with the reserved bit b8 set.
        RequestType::ClockValue => 0x80,
    }
}

/// (FCV, FCB) of a frame count bit state.
pub fn ref_fcv_fcb(fcb: FrameCountBit) -> (bool, bool) {
    match fcb {
        FrameCountBit::First => (false, true),
        FrameCountBit::High => (true, true),
        FrameCountBit::Low => (true, false),
        FrameCountBit::Inactive => (false, false),
    }
}

pub fn ref_fc_byte(fc: FunctionCode) -> u8 {
    match fc {
        FunctionCode::Request { fcb, req } => {
            let (fcv, fcb) = ref_fcv_fcb(fcb);
            0x40 | ref_request_code(req) | if fcb { 0x20 } else { 0 } | if fcv { 0x10 } else { 0 }
        }
        FunctionCode::Response { state, status } => {
            let st = match state {
                ResponseState::Slave => 0u8,
                ResponseState::MasterNotReady => 1,
                ResponseState::MasterWithoutToken => 2,
                ResponseState::MasterInRing => 3,
            };
            let code = match status {
                ResponseStatus::Ok => 0u8,
                ResponseStatus::UserError => 1,
                ResponseStatus::NoResources => 2,
                ResponseStatus::SapNotEnabled => 3,
                ResponseStatus::DataLow => 8,
                ResponseStatus::NoDataReady => 9,
                ResponseStatus::DataHigh => 10,
                ResponseStatus::NotReceivedDataLow => 12,
                ResponseStatus::NotReceivedDataHigh => 13,
            };
            (st << 4) | code
        }
    }
}

pub fn ref_request_expects_reply(req: RequestType) -> bool {
    // SDA, SRD, FDL status, ident and LSAP status are acknowledged/answered services; SDN and the
    // clock services are not.
    matches!(
        req,
        RequestType::SdaLow
            | RequestType::SdaHigh
            | RequestType::MulticastSrd
            | RequestType::FdlStatus
            | RequestType::SrdLow
            | RequestType::SrdHigh
            | RequestType::Ident
            | RequestType::LsapStatus
    )
}

// ------------------------------------------------------------------------------------------
// Reference frame encoder
// ------------------------------------------------------------------------------------------

/// Number of bytes a data telegram occupies on the wire.
pub fn ref_frame_len(h: &DataTelegramHeader, pdu_len: usize) -> usize {
    let le = 3 + pdu_len + h.dsap.is_some() as usize + h.ssap.is_some() as usize;
    if le == 3 {
        6 // SD1 DA SA FC FCS ED
    } else if le == 11 {
        14 // SD3 DA SA FC 8*DU FCS ED
    } else {
        le + 6 // SD2 LE LEr SD2 ... FCS ED
    }
}

/// Write the reference encoding of a data telegram into `out`; returns the length.
///
/// `pdu(i)` yields payload byte `i`.
pub fn ref_encode<const N: usize>(
    h: &DataTelegramHeader,
    pdu_len: usize,
    pdu: impl Fn(usize) -> u8,
    out: &mut [u8; N],
) -> usize {
    let le = 3 + pdu_len + h.dsap.is_some() as usize + h.ssap.is_some() as usize;
    let mut c;
    if le == 3 {
        out[0] = SD1;
        c = 1;
    } else if le == 11 {
        out[0] = SD3;
        c = 1;
    } else {
        out[0] = SD2;
        out[1] = le as u8;
        out[2] = le as u8;
        out[3] = SD2;
        c = 4;
    }
    let start = c;
    out[c] = h.da | if h.dsap.is_some() { 0x80 } else { 0 };
    out[c + 1] = h.sa | if h.ssap.is_some() { 0x80 } else { 0 };
    out[c + 2] = ref_fc_byte(h.fc);
    c += 3;
    if let Some(d) = h.dsap {
        out[c] = d;
        c += 1;
    }
    if let Some(s) = h.ssap {
        out[c] = s;
        c += 1;
    }
    let mut i = 0;
    while i < pdu_len {
        out[c] = pdu(i);
        c += 1;
        i += 1;
    }
    let mut fcs = 0u8;
    let mut k = start;
    while k < c {
        fcs = fcs.wrapping_add(out[k]);
        k += 1;
    }
    out[c] = fcs;
    out[c + 1] = ED;
    c + 2
}

/// `core::fmt::Write` sink that discards everything (for driving Debug impls).
pub struct NullWriter;
impl core::fmt::Write for NullWriter {
    fn write_str(&mut self, _s: &str) -> core::fmt::Result {
        Ok(())
    }
}

/// Stub for `log::__private_api::loc` (it calls `Location::caller()`, which Kani does not support).
/// The no-op logger never reads the location, so any well-aligned static of sufficient size does.
pub fn log_loc_stub() -> &'static core::panic::Location<'static> {
    static FAKE: [u64; 4] = [0; 4];
    unsafe { &*(FAKE.as_ptr() as *const core::panic::Location<'static>) }
}

/// FDL station whose parameters (the only thing the DP layer reads) are symbolic.
pub fn any_fdl() -> crate::fdl::FdlActiveStation {
    let address: u8 = kani::any();
    kani::assume(address <= 125);
    let max_retry_limit: u8 = kani::any();
    kani::assume(max_retry_limit >= 1 && max_retry_limit <= 15);
    let min_tsdr_bits: u8 = kani::any();
    kani::assume(min_tsdr_bits >= 11);
    let watchdog_factors = if kani::any() {
        let f1: u8 = kani::any();
        let f2: u8 = kani::any();
        kani::assume(f1 >= 1 && f2 >= 1);
        Some((f1, f2))
    } else {
        None
    };
    crate::fdl::FdlActiveStation::new(crate::fdl::Parameters {
        address,
        max_retry_limit,
        min_tsdr_bits,
        watchdog_factors,
        ..Default::default()
    })
}

